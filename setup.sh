#!/bin/bash
# Offline setup: everything needed is already in /venv; verify imports only.
set -e
cd "$(dirname "$0")"
export PYTHONDONTWRITEBYTECODE=1
REPO="${VERIF_REPO:-/repo}"
PYTHONPATH="$REPO" /venv/bin/python - <<'PY'
import numpy, scipy, networkx, gymnasium  # noqa
import incomplete_cooperative.bounds, incomplete_cooperative.generators  # noqa
print("setup ok: numpy", numpy.__version__)
PY
mkdir -p evidence replays
