"""Per-property claims (level, technique, text) used by gen_manifest.py."""

SIM = "deterministic simulation with fault injection"


def register(claim):
    claim("C08", "exploration",
          f"{SIM}: seeded operation histories on one long-lived game object (torn recomputes, scribbled bounds, "
          "memo eviction as faults), differential oracle against a no-history object; step/unstep undo at env level",
          "Seeded search over operation histories (who calls which mutator in which order, with recomputes cancelled "
          "half-way) against a fresh object told only the final knowledge: one bit-exact comparison decides "
          "idempotence, order-freeness, stale-state freedom and exact undo on every history drawn. Sampling, not "
          "proof: n <= 6, <= 40 operations per history.",
          "Trusts that a brand-new object computed once is the reference (the computer itself is not judged); "
          "interrupts land between Python lines of package code only.",
          "DESIGN.md section 5, C08")
    claim("C20", "fault_enumeration",
          f"{SIM}: storage seam (SimFS) over a real scratch directory; every raw I/O event of a save x "
          "{kill-before, kill-after, kill after j bytes, KeyboardInterrupt} enumerated per seeded file history",
          "For each seeded history of earlier saves and buffering configuration, the crash point inside one save "
          "is enumerated exhaustively at raw-I/O-event granularity (plus byte offsets inside writes), and the "
          "directory is judged by a restarted reader: data.json parses and equals the previous or the complete "
          "new content, earlier runs are all present, the next save succeeds. Histories and sizes are sampled.",
          "Process-death durability (what the kernel was handed survives); power-loss reordering and fsync are not "
          "modelled. Python's own buffered/text layers are real; only the raw layer and os.* calls are the seam.",
          "DESIGN.md section 5, C20")
