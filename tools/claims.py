"""Per-property claims (level, technique, text) used by gen_manifest.py."""

SIM = "deterministic simulation with fault injection"


def register(claim):
    claim("C08", "exploration",
          f"{SIM}: seeded operation histories on one long-lived game object (torn recomputes, scribbled bounds, "
          "memo eviction, a second caller thread computing another object (line-granular interleaving) as faults), "
          "differential oracle against a no-history object; step/unstep undo at env level",
          "Seeded search over operation histories (who calls which mutator in which order, with recomputes cancelled "
          "half-way) against a fresh object told only the final knowledge: one bit-exact comparison decides "
          "idempotence, order-freeness, stale-state freedom and exact undo on every history drawn. Sampling, not "
          "proof: n <= 6, <= 40 operations per history.",
          "Trusts that a brand-new object computed once is the reference (the computer itself is not judged); "
          "interrupts land between Python lines of package code only.",
          "DESIGN.md section 5, C08")
    claim("C20", "fault_enumeration",
          f"{SIM}: storage seam (SimFS) over a real scratch directory; every raw I/O event of a save x "
          "{kill-before, kill-after, kill after j bytes, KeyboardInterrupt} enumerated per seeded file history",
          "For each seeded history of earlier saves and buffering configuration, the crash point inside one save "
          "is enumerated exhaustively at raw-I/O-event granularity (plus byte offsets inside writes), and the "
          "directory is judged by a restarted reader: data.json parses and equals the previous or the complete "
          "new content, earlier runs are all present, the next save succeeds. Histories and sizes are sampled.",
          "Process-death durability (what the kernel was handed survives); power-loss reordering and fsync are not "
          "modelled. Python's own buffered/text layers are real; only the raw layer and os.* calls are the seam.",
          "DESIGN.md section 5, C20")
    claim("C14", "exploration",
          f"{SIM}: seeded iteration histories with checkpoint-restart events through the storage seam; one-step "
          "refinement of every node against a float64 reference model; twin (restarted vs continuous) equality; a second "
          "minimiser of another size iterating between / during (second caller thread) the judged iterations",
          "Every configuration class the property names (n=3,4 all limits incl. above the maximum, n=5 limits 1..3, "
          "plain/plus) is constructed and driven through seeded iteration histories; at every internal node the "
          "strategies are checked to be distributions with the right support and the regret / strategy update is "
          "compared with an independent float64 one-step model; a saved-and-reloaded minimiser is fed the same "
          "iterations as the continuous one and must stay array-identical.",
          "float32 tolerances (2e-4*scale abs, 1e-4 rel) for the one-step comparison; rows are addressed through the "
          "documented rank of a node; the checkpoint goes through SimFS fault-free (the property has no crash in it).",
          "DESIGN.md section 5, C14")
    claim("C10", "exploration",
          f"{SIM}: hidden-randomness seam - twin seeded generator calls separated by entropy jumps of every hidden "
          "stream, other calls, a change of simulated process image (SimPool worker, fork/fresh) or a second caller "
          "thread inside a generator; supplied generators with a bounded burst of rare coincidences; class monitors "
          "on every draw",
          "Decides by seeded search whether a seeded generator's output depends on anything in the process besides "
          "(name, n, supplied generator state): call history, global numpy/random streams, module-level generator, "
          "round-robin owner, worker image. Every registered key except 'convex' is invoked for n=3..6 (..8 "
          "thorough) and each draw is monitored for player count, v(empty)=0, float64, superadditivity and - for "
          "the XOS/XS/OXS/K-budget/coverage keys - monotonicity.",
          "Class membership is monitored on sampled draws only (tolerance: relative 1e-9 as documented); the "
          "documented exceptions are exempt from the twin comparison only.",
          "DESIGN.md section 5, C10")
    claim("C01", "exploration",
          f"{SIM}: seeded operation histories (reveal / un-reveal / bulk reset / recompute, with recomputes torn by a "
          "simulated KeyboardInterrupt, reveals that fail half-way, scribbled bounds, memo eviction, computes "
          "overlapped with another caller thread's) on one long-lived object; containment "
          "invariant against the hidden game after every completed compute",
          "Claims the history clause: whatever sequence of operations and cancelled recomputes led to a knowledge "
          "set K containing the minimal information, both SA computers give lower <= v <= upper, lower <= upper and "
          "known rows exactly v. Exact comparisons on integer/dyadic games, 1e-9 relative tolerance on float games. "
          "The for-all-games/for-all-K part is only sampled along the histories drawn (n <= 6, <= 40 operations).",
          "Hidden games come from a harness construction checked by an independent superadditivity predicate (or a "
          "registered family re-checked the same way).",
          "DESIGN.md section 5, C01")
    claim("C03", "exploration",
          f"{SIM}: twin objects (one per computer) fed identical histories, several player counts interleaved in one "
          "simulated process, memo eviction / torn recompute / scribbled bounds injected on one twin, computes of "
          "different objects interleaved line by line in two caller threads",
          "Differential oracle between the two computers after every completed compute of a pair, bit-identical on "
          "exactly representable games and within 1e-9 relative tolerance otherwise, under seeded interleavings of "
          "objects with different n so that the per-n memo is populated, reused and evicted in every order.",
          "n = 2..6 in the quick tier, ..8 in the thorough tier; histories <= 50 operations.",
          "DESIGN.md section 5, C03")
    claim("C17", "exploration",
          f"{SIM}: refinement of a dictionary reference model over seeded multi-handle histories (original, copies, "
          "negations) with operations interleaved across aliased handles, including scalar and bulk calls that fail half-way "
          "and pairs of bulk operations on two different handles overlapped in caller threads (line-granular interleaver)",
          "After every one of 10..50 interleaved public operations every live handle is compared field by field with "
          "its dictionary model through every public getter; untouched handles must stay byte-identical; negation "
          "is checked as swap-and-negate and as an involution. Fault kinds: calls failing half-way on unusable values, "
          "thread pre-emption between package lines while another thread uses another handle.",
          "Bounds of unknown coalitions are compared only after being written through a bound setter; a false "
          "precondition may be rejected (table unchanged) or accepted (then it must act as set / unset).",
          "DESIGN.md section 5, C17")
    claim("C09", "exploration",
          f"{SIM}: one long-lived environment driven by interleaved clients (agent reset/step/unstep in any order, "
          "the four solvers probing, calls torn by a simulated KeyboardInterrupt + reset recovery, resets whose hidden-game "
          "source raises, steps overlapped with a second client's call in another thread) against a "
          "reference model of (hidden games drawn, revealed set, counter)",
          "After every returned call every clause of the statement is evaluated against the reference model: known "
          "set and values, mask, observation (also against an independent normalisation when well conditioned), "
          "reward bit-exact against freshly recomputed bounds, info, the done predicate, and reset semantics; hidden "
          "games come from harness constructions, registered families and the CLI's ModelInstance.get_env path.",
          "n = 3..5; float-additive hidden games are excluded from the independent-normalisation comparison only; "
          "after a torn call only the post-reset state is judged.",
          "DESIGN.md section 5, C09")
    claim("C07", "exploration",
          f"{SIM}: seeded reveal histories through env.step and reveal_value+compute with probes, torn steps "
          "(reset-free recovery), memo evictions and a second client (between reveals or overlapping them in another "
          "thread); before/after invariants per reveal",
          "Along every simulated reveal history to full knowledge, interval monotonicity (exact on exact games) and, "
          "for all four registered gap functions, non-increase, non-negativity and zero at full knowledge are "
          "checked per reveal; each registered norm is also compared with its defining formula.",
          "Class-matched pairs only (premise re-checked independently); exploitability tolerance 1e-9*scale*2^n.",
          "DESIGN.md section 5, C07")
    claim("C11", "exploration",
          f"{SIM}: exhaustive search / best-states / meta-game run under a deterministic stand-in for "
          "multiprocessing.Pool (seeded chunk->worker schedules, worker counts 1..16, fork/fresh process images); "
          "fresh-object oracle per reveal set; differential over schedules; interrupted searches, a gap function that "
          "fails once inside the meta-game, a second caller thread searching; stub calibrated against the real pool",
          "For seeded (game, starting knowledge, k, computer, gap) the enumeration is compared with the set of all "
          "subsets (each exactly once), every reported value bit-for-bit with a fresh object told start+set, results "
          "across 2..3 pool configurations per run, MetaGame.get_value with the search value, and best-states with "
          "an independent per-size minimum over all sets recomputed from the sampled games. n <= 4.",
          "SimPool is a model of the pool (task-granular, no worker death); its fidelity is calibrated bit-for-bit "
          "against the real pool on deterministic configurations inside the check.",
          "DESIGN.md section 5, C11")
    claim("C12", "exploration",
          f"{SIM}: evaluate() under the simulated pool for seeded (processes, image model, chunk->worker schedule) "
          "configurations vs its sequential run; hidden game of every repetition observed through a "
          "simulator-owned side channel; trajectories replayed on fresh objects; an earlier evaluation interrupted, "
          "another caller thread evaluating meanwhile",
          "Clause (a) true trajectories is decided for every evaluation by replaying the recorded coalition ids on "
          "a fresh object over the hidden game that repetition really saw; clause (b) parallelism invariance and "
          "(c) independence by differential comparison across configurations from one seed. The two defects of the "
          "pinned tree (per-chunk pickled random state of the ModelInstance generator and of RandomSolver) are "
          "listed known findings; every other violation is reported.",
          "Known findings are matched by an oracle-computed signature (clause, environment source, random solver, "
          "processes>1); n = 3..4; SimPool calibrated against the real pool inside the check.",
          "DESIGN.md section 5, C12")
    claim("C13", "exploration",
          f"{SIM}: (i) solver decisions at states reached by seeded client histories (step/unstep/reset/torn step) "
          "against independently recomputed rewards + before/after snapshots, also with a second solver asked about a second "
          "environment in an overlapped caller thread; (ii) expected-greedy under the "
          "simulated pool across schedules against an exhaustive recomputation",
          "Every registered solver is asked at reached states and its choice compared with its rule evaluated on "
          "rewards recomputed on fresh objects (ties to the lowest index), with bit-exact environment snapshots "
          "before/after; expected-greedy curves are recomputed per step, compared with the minimum over remaining "
          "coalitions and with the exhaustive optimum, and across pool configurations.",
          "n = 3..5 for (i), 3..4 for (ii); randomised expected-greedy accepted within its documented 1e-6.",
          "DESIGN.md section 5, C13")
    claim("C16", "exploration",
          f"{SIM}: legacy global numpy stream (the wrapper's tie-break source) set from the tape before every step; "
          "wrapper pickled / deep-copied mid-session, steps overlapped with another wrapper's step in a second caller "
          "thread; wrapper compared with the inner environment and the reference model after every call",
          "Seeded sequences of allowed sizes until done (with resets), tie-breaks explored and replayable through "
          "the RNG seam; mask, exactly-one-new-coalition of the right size, info, reward/done pass-through and the "
          "per-size aggregation of the observation are checked after reset and every step.",
          "n = 3..6; the inner environment is judged by the C09 oracle in the same run.",
          "DESIGN.md section 5, C16")
    claim("C19", "exploration",
          f"{SIM}: save histories through the storage seam (fault-free, buffering/short-write knobs) against an "
          "ordered-dict reference model via both readers; end-to-end commands through the real parser under "
          "SimPool + SimFS with the computed matrices captured at the call boundary",
          "After every save of a seeded history (repeated / empty / unicode names, NaN / inf / float32 / 3-D / "
          "non-JSON metadata) the whole file is read back through both readers and compared entry by entry with "
          "the model; repeated names must leave the bytes unchanged; for solve / greedy / ugreedy / best_states the "
          "stored matrices must equal what evaluate / the search returned.",
          "Fault-free by the statement (crashes are C20); plot savers are stubbed; metadata compared up to JSON "
          "stringification (non-native values must come back as strings).",
          "DESIGN.md section 5, C19")
