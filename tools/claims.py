"""Per-property claims (level, technique, text) used by gen_manifest.py."""

SIM = "deterministic simulation with fault injection"


def register(claim):
    claim("C08", "exploration",
          f"{SIM}: seeded operation histories on one long-lived game object (torn recomputes, scribbled bounds, "
          "memo eviction as faults), differential oracle against a no-history object; step/unstep undo at env level",
          "Seeded search over operation histories (who calls which mutator in which order, with recomputes cancelled "
          "half-way) against a fresh object told only the final knowledge: one bit-exact comparison decides "
          "idempotence, order-freeness, stale-state freedom and exact undo on every history drawn. Sampling, not "
          "proof: n <= 6, <= 40 operations per history.",
          "Trusts that a brand-new object computed once is the reference (the computer itself is not judged); "
          "interrupts land between Python lines of package code only.",
          "DESIGN.md section 5, C08")
