#!/usr/bin/env python3
"""Work with seeded changes (realistic breakages produced independently of /verif).

  seeded.py confirm <dir>              demo.py exits 1 with patch.diff applied and 0 without (scratch copies)
  seeded.py suite <dir>                the package's own test suite still passes with the patch (slow, ~8 min)
  seeded.py check <dir> [--tier quick] [--props C01,C08]   run the checks against a scratch copy with the patch
  seeded.py all [--tier quick]         `check` for every /verif/seeded/<id>/ against the property in its meta.json

A seeded directory holds patch.diff, demo.py, meta.json (or notes.md before adoption).
Scratch copies live under /tmp/icg-seeded-* and are removed as soon as the command is done.
"""
import argparse
import json
import os
import shutil
import subprocess
import sys
import tempfile
import time

VERIF = os.path.dirname(os.path.dirname(os.path.abspath(__file__)))
REPO = "/repo"
PY = "/venv/bin/python"


def scratch(patch: str | None) -> str:
    d = tempfile.mkdtemp(prefix="icg-seeded-", dir="/tmp")
    subprocess.run(["rsync", "-a", "--exclude", ".git", "--exclude", "literature", "--exclude", "__pycache__",
                    REPO + "/", d + "/"], check=True)
    if patch:
        subprocess.run(["git", "init", "-q"], cwd=d, check=True)
        r = subprocess.run(["git", "apply", "--whitespace=nowarn", os.path.abspath(patch)], cwd=d, capture_output=True, text=True)
        if r.returncode != 0:
            shutil.rmtree(d, ignore_errors=True)
            raise SystemExit(f"patch does not apply: {r.stderr}")
        shutil.rmtree(os.path.join(d, ".git"), ignore_errors=True)
    return d


def run_demo(tree: str, demo: str) -> tuple[int, str]:
    env = dict(os.environ, PYTHONPATH=tree, PYTHONDONTWRITEBYTECODE="1")
    p = subprocess.run([PY, os.path.abspath(demo)], cwd=tree, env=env, capture_output=True, text=True, timeout=900)
    return p.returncode, (p.stdout + p.stderr)[-1500:]


def confirm(d: str) -> bool:
    patch, demo = os.path.join(d, "patch.diff"), os.path.join(d, "demo.py")
    clean, mutant = scratch(None), scratch(patch)
    try:
        rc0, out0 = run_demo(clean, demo)
        rc1, out1 = run_demo(mutant, demo)
    finally:
        shutil.rmtree(clean, ignore_errors=True)
        shutil.rmtree(mutant, ignore_errors=True)
    ok = rc0 == 0 and rc1 != 0
    print(f"[confirm] {d}: unchanged tree exit {rc0}, changed tree exit {rc1} -> {'CONFIRMED' if ok else 'NOT CONFIRMED'}")
    if not ok:
        print("  unchanged:", out0[-400:].replace("\n", " | "))
        print("  changed:  ", out1[-400:].replace("\n", " | "))
    return ok


def suite(d: str) -> bool:
    mutant = scratch(os.path.join(d, "patch.diff"))
    try:
        p = subprocess.run([os.path.join(VERIF, "tools", "run_suite.sh"), mutant], capture_output=True, text=True, timeout=4000)
    finally:
        shutil.rmtree(mutant, ignore_errors=True)
    print(f"[suite] {d}: {p.stdout.strip()[-600:]}")
    return "SUITE OK" in p.stdout


def check(d: str, tier: str, props: list[str], seed: str = "0") -> dict:
    mutant = scratch(os.path.join(d, "patch.diff"))
    out = {}
    try:
        for prop in props:
            env = dict(os.environ, VERIF_REPO=mutant, VERIF_SEED=seed,
                       VERIF_EVIDENCE_DIR=os.path.join(mutant, ".verif-evidence"),
                       VERIF_REPLAY_DIR=os.path.join(mutant, ".verif-replays"))
            t0 = time.time()
            p = subprocess.run([os.path.join(VERIF, "check"), prop, "--tier", tier], capture_output=True, text=True,
                               env=env, cwd=VERIF, timeout=7200)
            clause = next((ln.strip() for ln in p.stdout.splitlines() if ln.strip().startswith("clause:")), "")
            out[prop] = {"exit": p.returncode, "clause": clause, "seconds": round(time.time() - t0)}
            print(f"[check] {os.path.basename(os.path.dirname(d + '/'))} {prop} tier={tier}: exit {p.returncode} {clause} "
                  f"[{out[prop]['seconds']}s]", flush=True)
            if p.returncode == 2:
                print(p.stderr[-1500:])
    finally:
        shutil.rmtree(mutant, ignore_errors=True)
    return out


def adopt(src: str, sid: str, prop: str, skip_suite: bool) -> int:
    """Confirm a candidate myself (demo fails with / passes without, suite passes), then keep it under /verif/seeded/."""
    ok_demo = confirm(src)
    ok_suite = True if skip_suite else suite(src)
    if not (ok_demo and ok_suite):
        print(f"[adopt] {src}: NOT adopted (demo confirmed={ok_demo}, suite ok={ok_suite})")
        return 1
    dst = os.path.join(VERIF, "seeded", sid)
    os.makedirs(dst, exist_ok=True)
    for f in ("patch.diff", "demo.py", "notes.md"):
        if os.path.exists(os.path.join(src, f)):
            shutil.copy(os.path.join(src, f), os.path.join(dst, f))
    notes = open(os.path.join(src, "notes.md")).read() if os.path.exists(os.path.join(src, "notes.md")) else ""
    meta = {"id": sid, "property": prop, "origin": "independent sub-agent given only the property text and a scratch worktree",
            "needs_to_manifest": "see notes.md", "confirmed_by_me": {
                "demo": "exit 0 on a scratch copy of /repo HEAD, exit != 0 with patch.diff applied (tools/seeded.py confirm)",
                "suite": "skipped" if skip_suite else "package test suite on a scratch copy with the patch: no test fails that "
                         "passes on the unchanged tree (tools/run_suite.sh)"},
            "files_touched": [ln[6:].strip() for ln in open(os.path.join(src, "patch.diff")) if ln.startswith("+++ b/")],
            "summary": notes.strip().splitlines()[0].lstrip("# ").strip() if notes.strip() else ""}
    json.dump(meta, open(os.path.join(dst, "meta.json"), "w"), indent=1)
    print(f"[adopt] {sid}: adopted into {dst}")
    return 0


def main() -> int:
    ap = argparse.ArgumentParser()
    ap.add_argument("cmd", choices=["confirm", "suite", "check", "all", "adopt", "refactors"])
    ap.add_argument("--id")
    ap.add_argument("--property")
    ap.add_argument("--skip-suite", action="store_true")
    ap.add_argument("dir", nargs="?")
    ap.add_argument("--tier", default="quick")
    ap.add_argument("--props")
    ap.add_argument("--seed", default="0")
    ap.add_argument("--match", help="all: only seeded ids matching this regular expression")
    ap.add_argument("--record", action="store_true", help="all: record clause / tier of a catch in meta.json")
    a = ap.parse_args()
    if a.cmd == "adopt":
        return adopt(a.dir, a.id, a.property, a.skip_suite)
    if a.cmd == "refactors":
        # negative controls: behaviour-preserving refactorings on which every listed check must exit 0
        base = os.path.join(VERIF, "refactors")
        bad = []
        for name in sorted(os.listdir(base)):
            d = os.path.join(base, name)
            if not os.path.isdir(d):
                continue
            meta = json.load(open(os.path.join(d, "meta.json")))
            r = check(d, a.tier, a.props.split(",") if a.props else meta["checks"], a.seed)
            bad += [(name, p_, v) for p_, v in r.items() if v["exit"] != 0]
        print(f"[refactors] false alarms / errors: {len(bad)}")
        for b in bad:
            print("  ", b)
        return 1 if bad else 0
    if a.cmd == "confirm":
        return 0 if confirm(a.dir) else 1
    if a.cmd == "suite":
        return 0 if suite(a.dir) else 1
    if a.cmd == "check":
        props = a.props.split(",") if a.props else [json.load(open(os.path.join(a.dir, "meta.json")))["property"]]
        r = check(a.dir, a.tier, props, a.seed)
        return 0 if all(v["exit"] == 1 for v in r.values()) else 1
    rows = []
    base = os.path.join(VERIF, "seeded")
    import re
    for name in sorted(os.listdir(base)):
        d = os.path.join(base, name)
        if not os.path.exists(os.path.join(d, "meta.json")):
            continue
        if a.match and not re.search(a.match, name):
            continue
        meta = json.load(open(os.path.join(d, "meta.json")))
        prop = meta.get("check_property", meta["property"])
        tier = "thorough" if meta.get("caught_by", "").endswith("thorough") else a.tier
        r = check(d, tier, [prop], a.seed)
        rows.append((name, prop, r[prop]))
        if a.record and r[prop]["exit"] == 1:  # write what was observed into the meta file
            meta["caught_by"] = f"{prop} {tier}"
            meta["clause"] = r[prop]["clause"].replace("clause:", "").strip()
            meta.setdefault("what_i_ran", {})["check"] = (
                f"tools/seeded.py check --props {prop} --tier {tier} (VERIF_SEED={a.seed}): exit 1, {meta['clause']}, "
                f"{r[prop]['seconds']}s wall")
            json.dump(meta, open(os.path.join(d, "meta.json"), "w"), indent=1)
    caught = sum(1 for _, _, r in rows if r["exit"] == 1)
    print(f"[all] {caught}/{len(rows)} seeded changes caught at tier {a.tier}")
    for name, prop, r in rows:
        if r["exit"] != 1:
            print("  MISSED:", name, prop, r)
    return 0 if caught == len(rows) else 1


if __name__ == "__main__":
    sys.exit(main())
