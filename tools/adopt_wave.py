#!/usr/bin/env python3
"""Adopt one wave of sub-agent candidates into /verif/seeded/ (after demo and suite were confirmed centrally).

  adopt_wave.py <outdir> <first-suffix> <wave-label> <suite_results.txt> [overrides.json]

<outdir>/<Cxx>/{1,2}/ holds patch.diff, demo.py, notes.md; candidate k of property Cxx becomes Cxx-<first-suffix+k-1>.
Only candidates whose line in suite_results.txt says SUITE OK are adopted. overrides.json: {"C07/1": {"check_property":
"C11", "history": "..."}}. The clause / tier columns are filled afterwards by `seeded.py all --match ... --record`.
"""
import json
import os
import shutil
import sys

VERIF = os.path.dirname(os.path.dirname(os.path.abspath(__file__)))
out, first, label, suites = sys.argv[1], int(sys.argv[2]), sys.argv[3], sys.argv[4]
over = json.load(open(sys.argv[5])) if len(sys.argv) > 5 else {}
ok = {ln.split(" :: ")[0].strip() for ln in open(suites) if "SUITE OK" in ln}
n = 0
for prop in sorted(os.listdir(out)):
    for k in (1, 2):
        src = os.path.join(out, prop, str(k))
        if not os.path.exists(os.path.join(src, "patch.diff")):
            continue
        if src not in ok:
            print("NOT adopted (suite not confirmed):", src)
            continue
        sid = f"{prop}-{first + k - 1}"
        dst = os.path.join(VERIF, "seeded", sid)
        os.makedirs(dst, exist_ok=True)
        for f in ("patch.diff", "demo.py", "notes.md"):
            shutil.copy(os.path.join(src, f), os.path.join(dst, f))
        notes = open(os.path.join(src, "notes.md")).read().strip()
        lines = notes.splitlines()
        o = over.get(f"{prop}/{k}", {})
        meta = {
            "id": sid, "property": prop, "title": lines[0].lstrip("# ").strip(),
            "origin": f"{label}: produced by an independent sub-agent that was given only the property text and its own "
                      "scratch git worktree of /repo (nothing from /verif)",
            "files_touched": [ln[6:].strip() for ln in open(os.path.join(src, "patch.diff")) if ln.startswith("+++ b/")],
            "needs_to_manifest": "\n".join(lines[1:]).strip()[:1800],
            "what_i_ran": {
                "demo": "tools/seeded.py confirm: demo.py exits 0 on a scratch copy of /repo HEAD and 1 on the same copy "
                        "with patch.diff applied",
                "suite": "tools/seeded.py suite (package test suite on a scratch copy with the patch, OMP_NUM_THREADS=1, "
                         "flaky PPO tests re-run): no test fails that passes on the unchanged tree"},
            "caught_by": "", "clause": "",
            "history": o.get("history", f"{label}. caught by the check as it stood"),
        }
        if "check_property" in o:
            meta["check_property"] = o["check_property"]
        json.dump(meta, open(os.path.join(dst, "meta.json"), "w"), indent=1)
        n += 1
print(n, "adopted")
