#!/bin/bash
# usage: run_suite.sh <tree>   -- runs the package's whole test suite in <tree> and compares the set of
# failing tests with the unchanged tree (tools/expected_failures.txt: tests that need the missing `pyfmtools`).
# Newly failing tests are re-run up to twice on their own: the PPO-training tests of test_run_learn.py are
# seeded from the wall clock and fail now and then on the unchanged tree too.
export OMP_NUM_THREADS=1 MKL_NUM_THREADS=1 OPENBLAS_NUM_THREADS=1
WT="$1"; OUT=$(mktemp /tmp/suite-XXXX.xml)
HERE="$(cd "$(dirname "$0")" && pwd)"
cd "$WT" && timeout 3000 /venv/bin/python -m pytest -q -p no:cacheprovider --timeout=900 --continue-on-collection-errors --junitxml="$OUT" > "$OUT.log" 2>&1
python3 - "$OUT" "$WT" "$HERE/expected_failures.txt" <<'PY'
import subprocess, sys, xml.etree.ElementTree as ET
exp = set(open(sys.argv[3]).read().split('\n')) - {''}
def failed_in(xml):
    out = set()
    for tc in ET.parse(xml).iter('testcase'):
        if any(ch.tag in ('failure', 'error') for ch in tc):
            out.add(f"{tc.get('classname')}::{tc.get('name')}")
    return out
try:
    new = failed_in(sys.argv[1]) - exp
except Exception as e:
    print("SUITE BROKEN: no junit report (suite killed or timed out):", e); sys.exit(0)
flaky = []
for attempt in range(2):
    if not new:
        break
    still = set()
    for t in sorted(new):
        cls, name = t.split('::', 1)
        parts = cls.split('.')
        if parts[-1][:1].isupper():
            node = '/'.join(parts[:-1]) + '.py::' + parts[-1] + '::' + name
        else:
            node = '/'.join(parts) + '.py::' + name
        r = subprocess.run(['/venv/bin/python', '-m', 'pytest', '-q', '-p', 'no:cacheprovider', '--timeout=900', node],
                           cwd=sys.argv[2], capture_output=True, text=True)
        if r.returncode != 0:
            still.add(t)
        else:
            flaky.append(t)
    new = still
if new:
    print("SUITE BROKEN, newly failing (also on re-run):\n  " + "\n  ".join(sorted(new)))
else:
    print("SUITE OK: no test fails that passes on the unchanged tree" +
          (f" (passed on re-run, flaky: {sorted(set(flaky))})" if flaky else ""))
PY
rm -f "$OUT" "$OUT.log"
