#!/bin/bash
# usage: run_suite.sh <worktree>   -- runs the package's whole test suite in <worktree> and compares the
# set of failing tests with the unchanged tree (a few tests fail there because `pyfmtools` is missing).
export OMP_NUM_THREADS=1 MKL_NUM_THREADS=1 OPENBLAS_NUM_THREADS=1
WT="$1"; OUT=$(mktemp /tmp/suite-XXXX.xml)
cd "$WT" && timeout 3000 /venv/bin/python -m pytest -q -p no:cacheprovider --timeout=900 --continue-on-collection-errors --junitxml="$OUT" > "$OUT.log" 2>&1
python3 - "$OUT" <<'PY'
import sys, xml.etree.ElementTree as ET
exp=set(open('/verif/tools/expected_failures.txt').read().split('\n'))-{''}
failed=set()
for tc in ET.parse(sys.argv[1]).iter('testcase'):
    if any(ch.tag in ('failure','error') for ch in tc):
        failed.add(f"{tc.get('classname')}::{tc.get('name')}")
new=failed-exp
print("SUITE OK: no test fails that passes on the unchanged tree" if not new else "SUITE BROKEN, newly failing:\n  "+"\n  ".join(sorted(new)))
PY
rm -f "$OUT" "$OUT.log"
