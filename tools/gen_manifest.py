#!/usr/bin/env python3
"""Generate /verif/MANIFEST.json from one table, so the file stays valid and consistent."""
import json
import os
import sys

HERE = os.path.dirname(os.path.dirname(os.path.abspath(__file__)))

NA = {
    "C02": "Pure function of one immutable input (game, K): tightness is an optimum over a polytope of completions; "
           "no schedule, clock, fault, shared state or operation history in it. Deciding it needs an LP / exact "
           "optimum per input, i.e. a different technique (DESIGN.md section 2).",
    "C04": "Pure function of (game, K, repetition count); quantifier is inputs x configurations only. Its history "
           "side (stale state, monotonicity and soundness along reveal paths of the SAM computers) is covered by "
           "the C08 and C07 checks; the for-all-inputs soundness/ordering claim itself is not a simulation target.",
    "C05": "Algebraic identity of a stateless function over all real bound vectors; nothing a simulator controls.",
    "C06": "Algebraic identity of a stateless function (Shapley value) over all games; nothing a simulator controls.",
    "C15": "Stateless transformation of one input game; no history, schedule or fault. (Gross normalisation errors "
           "are visible through C09's observation oracle on well-conditioned games; not claimed here.)",
    "C18": "Finite-set semantics of stateless helpers and predicates; quantifier is inputs only.",
}

# property -> (level, technique, level text, level note, design ref)
CLAIMED = {}


def claim(pid, level, technique, text, note, ref):
    CLAIMED[pid] = (level, technique, text, note, ref)


sys.path.insert(0, os.path.join(HERE, "tools"))
from claims import register  # noqa: E402

register(claim)

props = [json.loads(line)["id"] for line in open(os.path.join(HERE, "properties.jsonl"))]
checks = []
for pid in props:
    if pid not in CLAIMED:
        continue
    level, technique, text, note, ref = CLAIMED[pid]
    checks.append({
        "property_id": pid,
        "quick_cmd": f"timeout 900 ./check {pid} --tier quick",
        "thorough_cmd": f"timeout 5400 ./check {pid} --tier thorough",
        "evidence_file": f"/verif/evidence/{pid}.json",
        "replay_cmd_template": f"./check {pid} --replay {{path}}",
        "engine": "detsim",
        "level_claimed": {"category": level, "text": text, "design_ref": ref},
        "level_note": note,
        "technique": technique,
    })
not_applicable = []
for pid in props:
    if pid in CLAIMED:
        continue
    reason = NA.get(pid, "Check not built yet in this round (planned in DESIGN.md section 5); not claimed until "
                         "its machinery exists.")
    not_applicable.append({"property_id": pid, "reason": reason})

manifest = {
    "version": 1,
    "setup_cmd": "./setup.sh",
    "hooks": {
        "guard": "ICG_VERIF_SIM",
        "enable": "No source hook exists in /repo: every seam is a module attribute or stdlib entry point rebound "
                  "from outside by /verif/sim (gameplay.Pool, evaluation.Pool, io.open, os.replace, RNG state "
                  "setters, sys.settrace). Checks import the package from /repo's working tree "
                  "(VERIF_REPO overrides the tree).",
        "baseline_off_cmd": "cd /repo && /venv/bin/python -m pytest -ra -q -p no:cacheprovider --timeout=900 "
                            "--continue-on-collection-errors",
        "source_commits": [],
        "add_only": True,
    },
    "engines": [{
        "name": "detsim",
        "path": "/verif/sim",
        "serves_properties": sorted(CLAIMED),
        "kind_free_text": "hand-written deterministic simulator: one choice tape per run (seeded PRNG, replayable, "
                          "shrinkable), in-process stand-ins for multiprocessing.Pool (SimPool) and the file system "
                          "(SimFS), RNG/clock seams, sys.settrace interrupt injector, reference-model oracles",
    }],
    "checks": checks,
    "not_applicable": not_applicable,
    "notes": "All checks: exit 0 held / only listed known findings; exit 1 + 'VIOLATION property=<id> replay=<path>'; "
             "exit 2 harness error (never silently 0). VERIF_SEED, VERIF_TIER, VERIF_REPO, VERIF_WORKERS honoured. "
             "Known findings and fixed defects: /verif/known_findings.json.",
}
with open(os.path.join(HERE, "MANIFEST.json"), "w") as f:
    json.dump(manifest, f, indent=1)
    f.write("\n")
print(f"claimed: {sorted(CLAIMED)}; not applicable / not claimed: {[x['property_id'] for x in not_applicable]}")
