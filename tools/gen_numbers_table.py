#!/usr/bin/env python3
"""Refresh the measured-numbers table of DESIGN.md (between the NUMBERS-TABLE markers) from evidence/*.json."""
import glob
import json
import os

HERE = os.path.dirname(os.path.dirname(os.path.abspath(__file__)))
rows = ["| property | tier | runs | distinct non-trivial | oracle evaluations | runs/hour (16 workers) | faults fired | distinct states | wall s |",
        "|---|---|---|---|---|---|---|---|---|"]
for f in sorted(glob.glob(os.path.join(HERE, "evidence", "C*.json"))):
    e = json.load(open(f))
    c = e["coverage"]
    rows.append(f"| {e['property_id']} | {e['tier']} | {c['evaluations']} | {c['distinct_nontrivial']} | {c.get('oracle_evaluations')} | "
                f"{c.get('runs_per_hour')} | {sum(c.get('faults_fired_by_kind', {}).values())} | {c.get('distinct_states')} | {e['wall_s']} |")
p = os.path.join(HERE, "DESIGN.md")
s = open(p).read()
a, b = "<!-- NUMBERS-TABLE-BEGIN -->", "<!-- NUMBERS-TABLE-END -->"
s = s[:s.index(a) + len(a)] + "\n" + "\n".join(rows) + "\n" + s[s.index(b):]
open(p, "w").write(s)
print(len(rows) - 2, "rows")
