#!/usr/bin/env python3
"""Refresh the seeded-changes table of DESIGN.md (between the SEEDED-TABLE markers) from seeded/*/meta.json."""
import glob
import json
import os
import re

HERE = os.path.dirname(os.path.dirname(os.path.abspath(__file__)))
rows = ["| id | what it breaks / needs | clause that fired | tier | history |", "|---|---|---|---|---|"]
for d in sorted(glob.glob(os.path.join(HERE, "seeded", "*", "meta.json"))):
    m = json.load(open(d))
    title = re.split(r" - | — |: ", m.get("title", ""), maxsplit=1)[-1]
    hist = "caught as first built" if m["history"].startswith("caught by the check as first built") else m["history"]
    rows.append(f"| {m['id']} | {title} | `{m['clause']}` | {m.get('caught_by', '')} | {hist} |")
p = os.path.join(HERE, "DESIGN.md")
s = open(p).read()
a, b = "<!-- SEEDED-TABLE-BEGIN -->", "<!-- SEEDED-TABLE-END -->"
s = s[:s.index(a) + len(a)] + "\n" + "\n".join(rows) + "\n" + s[s.index(b):]
open(p, "w").write(s)
print(len(rows) - 2, "rows")
