"""Store machine (SM) helpers: tape-drawn Output objects, names, canonical JSON."""
from __future__ import annotations

import json
from argparse import Namespace
from pathlib import Path
from typing import Any

import numpy as np

from .core import Sim

# names include JSON-structure words and metadata key names (a name is just a string to the store)
NAMES = ["run", "a", "b", "run-2026-10-01T07:12:17.948", "", "naïve-ü", "x y", "data", "0", "名前",
         "metadata", "actions", "nested", "run_type", "func", "seed", "null", "{}", "a\"b", "data.json", "c",
         # names that differ only after their last dot (the default name is an ISO timestamp with a fraction)
         "exp.v1", "exp.v2", "a.b", "a.c", "run-2026-10-01T07:12:17.100", "run-2026-10-01T07:12:17.200"]


def _eval_func(*a: Any) -> None:  # repr contains "eval" -> run_type "eval"
    return None


def _learn_fn(*a: Any) -> None:
    return None


class Opaque:
    """A metadata value json cannot encode natively."""

    def __repr__(self) -> str:
        return "Opaque<thing>"


def draw_name(sim: Sim, used: list[str], want_new: bool | None = None) -> str:
    if want_new is None:
        want_new = not used or not sim.flip(1, 4, "repeat-name")
    if not want_new and used:
        return sim.pick(used, "which-old-name")
    cands = [x for x in NAMES if x not in used]
    if cands and not sim.flip(1, 3, "numbered-name"):
        return sim.pick(cands, "name")
    i = 0
    while f"run{i}" in used:
        i += 1
    return f"run{i}"


def draw_matrix(sim: Sim, rows: int, cols: int, special: bool) -> np.ndarray:
    rng = sim.np_rng("matrix")
    kind = sim.choose(4, "matrix-kind")
    if kind == 0:
        m = rng.integers(-5, 50, (rows, cols)).astype(np.float64)
    elif kind == 1:
        m = rng.normal(0, 3, (rows, cols))
    elif kind == 2:
        m = rng.normal(0, 1, (rows, cols)).astype(np.float32)
    else:
        m = rng.normal(0, 1e3, (rows, cols))
    if m.dtype == np.float64 and rows > 1 and sim.flip(1, 5, "placeholder-rows"):
        # rows the search could not reach keep its placeholder: every entry -1
        for r_ in range(rows - 1 - sim.choose(min(3, rows - 1), "n-placeholder-rows"), rows):
            m[r_, :] = -1.0
    if special and m.dtype == np.float64:
        specials = [np.nan, np.inf, -np.inf, 1e308, -0.0, 5e-324, -1.0]
        for _ in range(sim.choose(4, "n-special")):
            m[sim.choose(rows, "sp-r"), sim.choose(cols, "sp-c")] = sim.pick(specials, "special")
    return m


def draw_actions(sim: Sim, rows: int, cols: int) -> np.ndarray:
    rng = sim.np_rng("actions")
    kind = sim.choose(4, "actions-kind")
    if kind == 0:
        return rng.integers(3, 31, (rows, cols)).astype(np.float64)
    if kind == 1:
        a = rng.integers(3, 31, (rows, cols)).astype(np.float64)
        for _ in range(1 + sim.choose(3, "nan-pad")):
            a[sim.choose(rows, "np-r"), sim.choose(cols, "np-c"):] = np.nan
        return a
    if kind == 2:
        return rng.integers(3, 31, (rows, cols))
    a = np.full((rows + 1, cols, max(rows, 1)), np.nan)  # best-states shape
    for i in range(rows + 1):
        for j in range(cols):
            a[i, j, :i] = rng.integers(3, 31, i)
    return a


def draw_metadata(sim: Sim) -> dict[str, Any]:
    md: dict[str, Any] = {"number_of_players": 3 + sim.choose(4, "md-n"), "game_class": "superadditive",
                          "seed": sim.choose(2 ** 31, "md-seed"), "gamma": 1.0, "linear": bool(sim.choose(2, "md-l")),
                          "run_steps_limit": None, "unique_name": "x"}
    if sim.flip(1, 2, "md-path"):
        md["model_dir"] = Path("/some/where") / "model"
    if sim.flip(1, 3, "md-tuple"):
        md["shape"] = (1, 2, 3)
    if sim.flip(1, 3, "md-np"):
        md["np_scalar"] = np.float64(1.5)
    if sim.flip(1, 3, "md-obj"):
        md["thing"] = Opaque()
    if sim.flip(1, 4, "md-nested"):
        md["nested"] = {"a": [1, 2, {"b": None}], "c": "d"}
    if sim.flip(1, 4, "md-unicode"):
        md["note"] = "naïve — ☃ \"quoted\" \\ back"
    return md


def draw_output(sim: Sim, special: bool = True, max_rows: int = 6, max_cols: int = 6, large_den: int = 10):
    from incomplete_cooperative.run.save import Output
    rows = 1 + sim.choose(max_rows, "rows")
    cols = 1 + sim.choose(max_cols, "cols")
    if large_den and sim.flip(1, large_den, "large-matrix"):  # results big enough to cross buffer / chunk boundaries (8 KiB .. 100 KiB of JSON)
        rows = 20 + sim.choose(60, "rows-large")
        cols = 10 + sim.choose(50, "cols-large")
    data = draw_matrix(sim, rows, cols, special)
    actions = draw_actions(sim, max(rows - 1, 1), cols)
    md = draw_metadata(sim)
    md["func"] = _eval_func if sim.flip(1, 2, "func-kind") else _learn_fn
    return Output(data, actions, Namespace(**md))


def canon(parsed: Any) -> str:
    """Canonical text of parsed JSON (NaN-safe comparison key)."""
    return json.dumps(parsed, sort_keys=True)


def try_parse(raw: bytes | None) -> tuple[bool, Any]:
    if raw is None:
        return True, None
    try:
        return True, json.loads(raw.decode("utf-8"))
    except Exception as e:
        return False, repr(e)
