"""Command line of the simulation checks.

  check <ID> [--tier quick|thorough] [--runs N] [--wall S] [--workers W]
  check <ID> --replay <file>
  check <ID> --run-index I        (execute one run in-process and print its trace)
  check selftest-determinism [--props C01,C08] [--seeds N]
  check --exec-tape               (internal: JSON on stdin -> RESULT line)
"""
from __future__ import annotations

import argparse
import json
import os
import sys

HERE = os.path.dirname(os.path.abspath(__file__))
VERIF = os.path.dirname(HERE)
if VERIF not in sys.path:
    sys.path.insert(0, VERIF)
sys.dont_write_bytecode = True
os.environ.setdefault("PYTHONDONTWRITEBYTECODE", "1")


def main(argv: list[str]) -> int:
    from sim import runner, seams
    from sim.core import derive_seed, execute

    if argv and argv[0] == "--exec-tape":
        req = json.loads(sys.stdin.read())
        seams.import_repo()
        mach = runner.load_machine(req["prop"])
        if hasattr(mach, "preload"):
            mach.preload()
        seams.record_pristine()
        kf = [k for k in runner.load_known_findings().get("findings", []) if k.get("property") == req["prop"]]
        r = execute(req["prop"], mach.run, req["seed"], req["tape"], req.get("tier", "quick"), kf)
        print("RESULT " + json.dumps(runner.result_to_plain(r), default=str))
        return 0

    ap = argparse.ArgumentParser(prog="check")
    ap.add_argument("target")
    ap.add_argument("--tier", default=os.environ.get("VERIF_TIER", "quick"), choices=["quick", "thorough"])
    ap.add_argument("--runs", type=int)
    ap.add_argument("--wall", type=float)
    ap.add_argument("--workers", type=int)
    ap.add_argument("--replay")
    ap.add_argument("--run-index", type=int)
    ap.add_argument("--props")
    ap.add_argument("--seeds", type=int, default=24)
    args = ap.parse_args(argv)
    verif_seed = int(os.environ.get("VERIF_SEED", "0") or 0)

    if args.target == "selftest-determinism":
        from sim import selftest
        return selftest.determinism(args.props.split(",") if args.props else None, args.seeds, verif_seed)
    if args.target == "selftest-mutants":
        from sim import selftest
        return selftest.mutants(args.props.split(",") if args.props else None, verif_seed)

    prop = args.target.upper()
    if prop not in runner.MACHINES:
        print(f"unknown property {prop}", file=sys.stderr)
        return 2
    if args.replay:
        return runner.replay(prop, args.replay)
    if args.run_index is not None:
        seams.import_repo()
        mach = runner.load_machine(prop)
        if hasattr(mach, "preload"):
            mach.preload()
        seams.record_pristine()
        kf = [k for k in runner.load_known_findings().get("findings", []) if k.get("property") == prop]
        r = execute(prop, mach.run, derive_seed(verif_seed, prop, args.run_index), None, args.tier, kf,
                    args.run_index)
        print(json.dumps(runner.result_to_plain(r), indent=1, default=str))
        return 1 if r.violation else (2 if r.error else 0)
    return runner.run_batch(prop, args.tier, verif_seed, args.workers, args.runs, args.wall)


if __name__ == "__main__":
    sys.exit(main(sys.argv[1:]))
