"""Process-history prelude ("this process has been used before").

A library process is long-lived: before the calls a run judges, the same interpreter may
already have computed bounds, gaps, Shapley values, drawn games or played episodes for
*other* player counts.  Any state the package keeps across calls (memo tables, module-level
caches, lazily built lookup arrays, counters) is then populated by that earlier use.  The
prelude is the simulator's way of placing such state: 0..3 tape-chosen unrelated activities
with tape-chosen sizes run on real package code before (or in the middle of) a run.  It is
never judged itself - its exceptions are swallowed and only counted - and tape value 0 means
"no prelude", so shrinking removes it when it is irrelevant.
"""
from __future__ import annotations

import numpy as np

from . import em, games
from .core import Sim

LIGHT_COMPUTERS = ["superadditive", "superadditive_cached", "sam_apx_1", "sam_apx_10"]


def _activity(sim: Sim, kind: str, n: int) -> None:
    if kind == "bounds_gaps":
        cls = sim.pick(["SA", "SAM", "ANY"], "pre-class")
        v, _ = games.draw_game(sim, n, cls)
        from incomplete_cooperative.bounds import BOUNDS
        names = [k for k in LIGHT_COMPUTERS if k in BOUNDS]
        comp = games.computer(sim.pick(names, "pre-computer"))
        ids = games.minimal_ids(n) + sim.subset(games.explorable_ids(n), "pre-known", 1, 3)
        g = games.fresh(n, comp, ids, v)
        for fn in games.gap_functions().values():
            fn(g)
    elif kind == "shapley":
        from incomplete_cooperative.shapley import compute_shapley_value
        v, _ = games.draw_game(sim, n, "ANY")
        list(compute_shapley_value(games.full_game(v, n)))
    elif kind == "generator":
        from incomplete_cooperative.generators import GENERATORS
        keys = [k for k in GENERATORS if k != "convex"]
        key = sim.pick(keys, "pre-key")
        g = GENERATORS[key](min(n, 6) if key == "oxs" else n, np.random.Generator(np.random.PCG64(sim.choose(2 ** 32, "pre-seed"))))
        g.get_values()
    elif kind == "episode":
        cls = sim.pick(["SA", "SAM"], "pre-class")
        v, _ = games.draw_game(sim, n, cls)
        comp_name = sim.pick(games.computers_for(cls, n), "pre-computer")
        gaps = games.gap_functions()
        env = em.make_env(n, comp_name, em.ListSource([v], n), gaps[sim.pick(sorted(gaps), "pre-gap")], None)
        valid = list(range(len(env.explorable_coalitions)))
        for _ in range(min(len(valid), 1 + sim.choose(4, "pre-steps"))):
            a = valid.pop(sim.choose(len(valid), "pre-action"))
            env.step(a)
            if sim.flip(1, 3, "pre-unstep"):
                env.unstep(a)
                valid.append(a)
        env.reset()
    elif kind == "normalize":
        from incomplete_cooperative.normalize import denormalize_game, normalize_game
        v, _ = games.draw_game(sim, n, "SA")
        g = games.full_game(v, n)
        info = normalize_game(g)
        denormalize_game(g, info)
    elif kind == "regret":
        from incomplete_cooperative.regret import GameRegretMinimizer
        m = 3 + sim.choose(2, "pre-regret-n")
        GameRegretMinimizer(m, 1 + sim.choose(2 ** m - m - 2, "pre-regret-limit"), bool(sim.choose(2, "pre-plus")))
    elif kind == "coalitions":
        from incomplete_cooperative.coalition_ids import sub_coalitions, super_coalitions
        from incomplete_cooperative.coalitions import Coalition, get_sub_coalitions, get_super_coalitions
        c = sim.choose(2 ** n, "pre-coalition")
        list(get_sub_coalitions(Coalition(c)))
        list(get_super_coalitions(Coalition(c), n))
        sub_coalitions(c, n)
        super_coalitions(c, n)


KINDS = ["bounds_gaps", "shapley", "generator", "episode", "normalize", "regret", "coalitions"]


def warm_process(sim: Sim, max_n: int = 7, label: str = "prelude") -> int:
    """Run 0..3 unrelated activities with other sizes; returns how many ran."""
    k = sim.choose(4, label + "-count")
    ran = 0
    for _ in range(k):
        kind = sim.pick(KINDS, label + "-kind")
        n = 2 + sim.choose(max_n - 1, label + "-n")
        if kind in ("episode", "generator") and n < 3:
            n = 3
        if kind == "episode" and n > 5:
            n = 5
        sim.event("prelude", kind, n)
        try:
            _activity(sim, kind, n)
            ran += 1
        except Exception as e:  # the prelude is not judged
            sim.event("prelude-raised", type(e).__name__)
            sim.probe("prelude_activity_raised")
    if ran:
        sim.faults["earlier_use_of_process_with_other_sizes"] += ran
    return ran
