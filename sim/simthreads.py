"""Line-granular interleaving of threads inside one interpreter (baton passing).

The package starts no threads, but a library can be *called* from several threads of one
process.  `interleave(sim, thunks)` runs each thunk in a real thread; exactly one thread holds
the baton at any time; pre-emption points are `line` events of package code (sys.settrace in
each thread), and the tape decides after how many package lines the baton moves and to whom.
One tape = one interleaving, exactly repeatable; tape value 0 means "run to completion without
switching", so shrinking removes interleaving that does not matter.

Limits: a pre-emption cannot land inside a numpy call or inside non-package code, and a thread
is never parked while it is importing a package module (it holds that module's import lock); a
thread that blocks on a real lock held by a parked thread would hang (the watchdog turns that
into a HarnessError, never into a verdict).
"""
from __future__ import annotations

import sys
import threading
from typing import Any, Callable

from . import seams
from .core import HarnessError, Sim


# > 0 while a simulated pool dispatches work from inside a simulated thread: the pool stand-in swaps whole process
# images in and out of the interpreter, so the thread that does it is not parked until it is done (less interleaving
# explored there, never a wrong one)
NO_PREEMPT = 0


class no_preempt:
    def __enter__(self):
        global NO_PREEMPT
        NO_PREEMPT += 1

    def __exit__(self, *exc):
        global NO_PREEMPT
        NO_PREEMPT -= 1


class _Task:
    def __init__(self, idx: int, thunk: Callable[[], Any]) -> None:
        self.idx, self.thunk = idx, thunk
        self.go = threading.Event()
        self.done = False
        self.result: Any = None
        self.exc: BaseException | None = None
        self.thread: threading.Thread | None = None
        self.lines = 0


class Interleaver:
    def __init__(self, sim: Sim, max_interval: int = 60) -> None:
        self.sim = sim
        self.max_interval = max_interval
        self.tasks: list[_Task] = []
        self.all_done = threading.Event()
        self.countdown = 0
        self.switches = 0
        self.current: _Task | None = None
        self._importing: dict[int, int] = {}

    # ------------------------------------------------------------------ tracing
    def _global_trace(self, frame, event, arg):
        if frame.f_code.co_filename.startswith(seams.PKG):
            if frame.f_code.co_name == "<module>":
                # a package module is being imported by this thread: it holds that module's import lock, so it
                # must not be parked until the import is over (another thread importing it would block for real)
                self._importing[threading.get_ident()] = self._importing.get(threading.get_ident(), 0) + 1
                return self._module_trace
            return self._local_trace
        return None

    def _module_trace(self, frame, event, arg):
        if event == "return":
            self._importing[threading.get_ident()] -= 1
        return self._module_trace

    def _local_trace(self, frame, event, arg):
        if event == "line":
            self._maybe_switch()
        return self._local_trace

    def _draw_interval(self) -> int:
        v = self.sim.choose(self.max_interval + 1, "lines-until-switch")
        return 10 ** 9 if v == 0 else v  # 0 = never pre-empt this stretch

    def _maybe_switch(self) -> None:
        t = self.current
        t.lines += 1
        self.countdown -= 1
        if self.countdown > 0:
            return
        if self._importing.get(threading.get_ident()) or NO_PREEMPT:
            self.countdown = 1  # try again at the first line after the import / the pool dispatch
            return
        others = [x for x in self.tasks if not x.done and x is not t]
        self.countdown = self._draw_interval()
        if not others:
            return
        target = others[self.sim.choose(len(others), "switch-to")]
        self.switches += 1
        self.sim.event("thread-switch", t.idx, target.idx, t.lines)
        self.current = target
        t.go.clear()
        target.go.set()
        t.go.wait()

    # ------------------------------------------------------------------- bodies
    def _body(self, t: _Task) -> None:
        t.go.wait()
        sys.settrace(self._global_trace)
        try:
            t.result = t.thunk()
        except BaseException as e:  # reported to the caller of interleave()
            t.exc = e
        finally:
            sys.settrace(None)
            t.done = True
            rest = [x for x in self.tasks if not x.done]
            if rest:
                nxt = rest[self.sim.choose(len(rest), "next-after-finish")]
                self.current = nxt
                nxt.go.set()
            else:
                self.all_done.set()

    def run(self, thunks: list[Callable[[], Any]], timeout: float = 900.0) -> list[_Task]:
        self.tasks = [_Task(i, th) for i, th in enumerate(thunks)]
        if not self.tasks:
            return []
        with seams.allow_escape():
            for t in self.tasks:
                t.thread = threading.Thread(target=self._body, args=(t,), daemon=True, name=f"simthread-{t.idx}")
                t.thread.start()
        self.countdown = self._draw_interval()
        first = self.tasks[self.sim.choose(len(self.tasks), "first-thread")]
        self.current = first
        first.go.set()
        if not self.all_done.wait(timeout):
            raise HarnessError("simulated threads did not finish (a thread blocked on something a parked thread holds?)")
        for t in self.tasks:
            t.thread.join(5)
        self.sim.event("threads-done", self.switches, [t.lines for t in self.tasks])
        return self.tasks


def interleave(sim: Sim, thunks: list[Callable[[], Any]], max_interval: int = 60) -> list[Any]:
    """Run the thunks as interleaved threads; returns their results, re-raising the first exception."""
    iv = Interleaver(sim, max_interval)
    tasks = iv.run(thunks)
    if iv.switches:
        sim.faults["thread_preempted_between_package_lines"] += iv.switches
    for t in tasks:
        if t.exc is not None:
            raise t.exc
    return [t.result for t in tasks]
