"""Self-tests of the simulator: determinism proof and sensitivity (mutants).

Not part of the registered commands; run by hand / in the background:
  ./check selftest-determinism [--props C08,C20] [--seeds N]
  ./check selftest-mutants [--props C08]
"""
from __future__ import annotations

import json
import os
import shutil
import subprocess
import sys
import tempfile
import time
from concurrent.futures import ThreadPoolExecutor

from . import runner
from .core import derive_seed
from .mutants import MUTANTS

VERIF = runner.VERIF


def _digests(prop: str, indices: list[int], verif_seed: int, hashseed: str, tier: str = "quick") -> dict[int, str]:
    """Run the given run indices in one fresh interpreter; return index -> digest+tape hash."""
    env = dict(os.environ)
    env["PYTHONHASHSEED"] = hashseed
    env["PYTHONDONTWRITEBYTECODE"] = "1"
    code = (
        "import sys, json; sys.path.insert(0, %r)\n"
        "from sim import runner, seams\nfrom sim.core import derive_seed, execute\n"
        "seams.import_repo()\nm = runner.load_machine(%r)\n"
        "getattr(m, 'preload', lambda: None)()\nseams.record_pristine()\n"
        "kf = [k for k in runner.load_known_findings().get('findings', []) if k.get('property') == %r]\n"
        "out = {}\n"
        "for i in %r:\n"
        "    r = execute(%r, m.run, derive_seed(%d, %r, i), None, %r, kf, i)\n"
        "    out[i] = r.digest + ':' + str(len(r.tape)) + ':' + str(bool(r.violation)) + ':' + str(bool(r.error))\n"
        "print('DIGESTS ' + json.dumps(out))\n"
    ) % (VERIF, prop, prop, indices, prop, verif_seed, prop, tier)
    p = subprocess.run([sys.executable, "-c", code], capture_output=True, text=True, env=env, cwd=VERIF, timeout=3000)
    for line in p.stdout.splitlines():
        if line.startswith("DIGESTS "):
            return {int(k): v for k, v in json.loads(line[8:]).items()}
    raise RuntimeError(f"selftest child failed: {p.stderr[-2000:]}")


def determinism(props: list[str] | None, seeds: int, verif_seed: int) -> int:
    """Every run index executed in 4 fresh interpreters (2 hash seeds, 2 batch shapes) must give one digest."""
    props = props or sorted(runner.MACHINES)
    bad = 0
    t0 = time.time()
    for prop in props:
        idx = list(range(seeds))
        jobs = []
        with ThreadPoolExecutor(max_workers=16) as ex:
            # shape A: all indices in order in one interpreter; shape B: reversed order, two interpreters
            jobs.append(ex.submit(_digests, prop, idx, verif_seed, "0"))
            jobs.append(ex.submit(_digests, prop, idx, verif_seed, "12345"))
            half = len(idx) // 2
            jobs.append(ex.submit(_digests, prop, idx[::-1][:half], verif_seed, "0"))
            jobs.append(ex.submit(_digests, prop, idx[::-1][half:], verif_seed, "777"))
            res = [j.result() for j in jobs]
        merged_b = {**res[2], **res[3]}
        mismatches = [i for i in idx if not (res[0][i] == res[1][i] == merged_b[i])]
        flagged = sum(1 for i in idx if res[0][i].split(":")[2] == "True" or res[0][i].split(":")[3] == "True")
        print(f"[selftest-determinism] {prop}: {len(idx)} run indices x 3 fresh interpreters "
              f"(PYTHONHASHSEED 0 / 12345 / 777, forward and reversed order): mismatches={len(mismatches)} "
              f"violating_or_error_runs={flagged}", flush=True)
        if mismatches:
            bad += 1
            print(f"  first mismatching indices: {mismatches[:10]}")
    print(f"[selftest-determinism] done in {time.time() - t0:.0f}s, properties with mismatches: {bad}")
    return 1 if bad else 0


def make_mutant(repo: str, m: dict) -> str:
    d = tempfile.mkdtemp(prefix="icg-mut-", dir="/tmp")
    subprocess.run(["rsync", "-a", "--exclude", ".git", "--exclude", "literature", "--exclude", "__pycache__",
                    repo + "/", d + "/"], check=True)
    for edit in m["edits"]:
        p = os.path.join(d, edit["file"])
        s = open(p).read()
        if edit["old"] not in s:
            shutil.rmtree(d)
            raise RuntimeError(f"mutant {m['name']}: pattern not found in {edit['file']}")
        s = s.replace(edit["old"], edit["new"], 1)
        open(p, "w").write(s)
    return d


def mutants(props: list[str] | None, verif_seed: int, with_tests: bool = False) -> int:
    repo = os.path.realpath(os.environ.get("VERIF_REPO", "/repo"))
    rows = []
    for m in MUTANTS:
        if props and m["property"] not in props:
            continue
        try:
            d = make_mutant(repo, m)
        except RuntimeError as e:
            rows.append((m["property"], m["name"], "SKIP", str(e)))
            continue
        try:
            t0 = time.time()
            thorough = m.get("tier") == "thorough"
            tier_args = ["--tier", "thorough", "--wall", "600"] if thorough else ["--tier", "quick"]
            # a mutant declared thorough-only has a rare trigger (measured: about one 10-minute batch in two finds
            # it); it gets up to three batches with different VERIF_SEED values, stopping at the first kill
            for attempt in range(3 if thorough else 1):
                env = dict(os.environ, VERIF_REPO=d, VERIF_SEED=str(int(verif_seed) + attempt),
                           VERIF_EVIDENCE_DIR=os.path.join(d, ".verif-evidence"),
                           VERIF_REPLAY_DIR=os.path.join(d, ".verif-replays"))
                p = subprocess.run([os.path.join(VERIF, "check"), m["property"]] + tier_args,
                                   capture_output=True, text=True, env=env, cwd=VERIF, timeout=1800)
                viol = [ln for ln in p.stdout.splitlines() if ln.startswith("VIOLATION")]
                clause = next((ln.strip() for ln in p.stdout.splitlines() if ln.strip().startswith("clause:")), "")
                status = "KILLED" if p.returncode == 1 and viol else f"SURVIVED(exit {p.returncode})"
                if status == "KILLED":
                    if thorough:
                        clause += f" (thorough tier, batch {attempt + 1})"
                    break
            rows.append((m["property"], m["name"], status, f"{clause} [{time.time() - t0:.0f}s]"))
        finally:
            shutil.rmtree(d, ignore_errors=True)
        print(f"[selftest-mutants] {rows[-1]}", flush=True)
    survived = [r for r in rows if not r[2].startswith("KILLED")]
    print(f"[selftest-mutants] {len(rows) - len(survived)}/{len(rows)} killed")
    for r in survived:
        print("  NOT KILLED:", r)
    return 1 if survived else 0
