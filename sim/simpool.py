"""SimPool - a deterministic in-process stand-in for multiprocessing.Pool.

Semantics reproduced from CPython 3.12 multiprocessing/pool.py (and calibrated
bit-for-bit against the real pool, see `calibrate`):

* the iterable is fully materialised in the parent; default chunksize is
  ceil(len / (4 * processes)); each chunk (func, tuple_of_args) is serialised as
  ONE pickle with ForkingPickler, from the parent's state at dispatch;
* every worker owns a private *process image* (hidden RNG streams, immutable
  module-level scalars such as generators._LAST_OWNER, pid); a chunk is unpickled,
  run and its result pickled under the image of the worker the scheduler chose;
* results are assembled by index; a worker exception is re-raised in the parent.

What the seeded scheduler decides: which worker takes each chunk (any assignment
a real pool could produce, including "one worker takes everything"), the image
model (fork: copy of the parent at pool creation; fresh: what forkserver/spawn
give - import-time scalars and new entropy), and the completion order of
unordered maps.  Workers share no memory, so task-granular scheduling is
complete for process pools.
"""
from __future__ import annotations

import io
import itertools
import multiprocessing
import multiprocessing.pool
import os
import random
import sys
from multiprocessing.reduction import ForkingPickler
from typing import Any, Callable, Iterable

import numpy as np

from . import seams
from .core import HarnessError, Sim

_STATE: dict[str, Any] = {"sim": None, "installed": False, "saved": {}, "import_scalars": None,
                          "image_model": "fork", "cpu_count": 4, "pools": 0}

_SCALARS = (int, float, str, bool, type(None), bytes, complex)


def _pkg_modules():
    return [(n, m) for n, m in sorted(sys.modules.items())
            if m is not None and (n == "incomplete_cooperative" or n.startswith("incomplete_cooperative."))
            and ".tests" not in n]


def _scalar_globals() -> dict[tuple[str, str], Any]:
    out = {}
    for name, mod in _pkg_modules():
        for k, v in vars(mod).items():
            if k.startswith("__"):
                continue
            if isinstance(v, _SCALARS) and not isinstance(v, type):
                out[(name, k)] = v
    return out


def record_import_scalars() -> None:
    """Remember the import-time value of every module-level scalar (the `fresh` image)."""
    if _STATE["import_scalars"] is None:
        _STATE["import_scalars"] = _scalar_globals()


def _fp_dumps(obj: Any) -> bytes:
    return bytes(ForkingPickler.dumps(obj))


def _loads(b: bytes) -> Any:
    return ForkingPickler.loads(b)


class Image:
    """Private process-global state of one simulated process.

    Hidden RNG streams plus the package's process state as defined in seams (module- and class-level
    containers, arrays, scalars, objects bound to module globals such as a worker-side scratch object set
    by a pool initializer, lazily created globals).  functools caches cannot be saved or restored; they are
    evicted whenever control passes from one simulated process to another (always legal).
    """

    def __init__(self) -> None:
        self.gen_states: list[dict] = []
        self.np_legacy: Any = None
        self.py_random: Any = None
        self.state: dict | None = None
        self.pid = 0
        self.name = "MainProcess"

    @classmethod
    def capture(cls, pid: int = 0, name: str = "MainProcess") -> "Image":
        im = cls()
        im.gen_states = [g.bit_generator.state for g in seams._hidden_generators()]
        im.np_legacy = np.random.get_state()
        im.py_random = random.getstate()
        im.state = seams.capture_process_state()
        im.pid, im.name = pid, name
        return im

    def copy(self, pid: int, name: str) -> "Image":
        """What fork gives a child: a private copy of everything."""
        im = Image()
        im.gen_states = [dict(s) for s in self.gen_states]
        im.np_legacy, im.py_random = self.np_legacy, self.py_random
        im.state = seams.copy_process_state(self.state)
        im.pid, im.name = pid, name
        return im

    def apply(self) -> None:
        seams.apply_process_state(self.state)
        gens = seams._hidden_generators()
        for g, st in zip(gens, self.gen_states):
            g.bit_generator.state = st
        np.random.set_state(self.np_legacy)
        random.setstate(self.py_random)
        _STATE["pid"] = self.pid
        multiprocessing.current_process().name = self.name


def fresh_image(sim: Sim, pid: int, name: str) -> Image:
    """What a forkserver/spawn worker starts with: import-time package state, new entropy."""
    im = Image.capture(pid, name)
    im.state = None  # apply_process_state(None) = the state right after import
    seed = sim.choose(2 ** 32, "fresh-image-entropy")
    ss = np.random.SeedSequence(seed).generate_state(3)
    im.gen_states = [np.random.PCG64(int(ss[0]) + i).state for i in range(len(im.gen_states))]
    saved = np.random.get_state()
    np.random.seed(int(ss[1]))
    im.np_legacy = np.random.get_state()
    np.random.set_state(saved)
    r = random.Random(int(ss[2]))
    im.py_random = r.getstate()
    return im


def mapstar(args):
    return list(map(*args))


def starmapstar(args):
    return list(itertools.starmap(args[0], args[1]))


class _Result:
    def __init__(self, value: Any = None, exc: BaseException | None = None) -> None:
        self._value, self._exc = value, exc

    def get(self, timeout=None):
        if self._exc is not None:
            raise self._exc
        return self._value

    def wait(self, timeout=None):
        return None

    def ready(self):
        return True

    def successful(self):
        return self._exc is None


class SimPool:
    """Drop-in replacement for multiprocessing.pool.Pool driven by the run's tape."""

    def __init__(self, processes=None, initializer=None, initargs=(), maxtasksperchild=None, context=None):
        sim: Sim = _STATE["sim"]
        if sim is None:
            raise HarnessError("SimPool used outside a simulated run")
        self.sim = sim
        if processes is None:
            processes = _STATE["cpu_count"]
        if processes < 1:
            raise ValueError("Number of processes must be at least 1")
        self.processes = int(processes)
        self.maxtasksperchild = maxtasksperchild
        self.initializer, self.initargs = initializer, initargs
        _STATE["pools"] += 1
        self._pool_no = _STATE["pools"]
        self._closed = False
        self._next_pid = 1000 * self._pool_no
        self.model = _STATE["image_model"]
        self.parent = Image.capture(0, "MainProcess")
        self._fork_base = self.parent
        self.workers: list[Image] = []
        self.tasks_done: list[int] = []
        for w in range(self.processes):
            self.workers.append(self._new_worker(w))
            self.tasks_done.append(0)
        self.chunks_by_worker = [0] * self.processes
        sim.event("pool", "create", self.processes, self.model)
        sim.probe(f"pool_p{min(self.processes, 16)}")

    def _new_worker(self, w: int) -> Image:
        self._next_pid += 1
        name = f"SimPoolWorker-{self._pool_no}-{w}"
        if self.model == "fresh":
            im = fresh_image(self.sim, self._next_pid, name)
            self.sim.faults["worker_with_fresh_process_image"] += 1
        else:
            im = self._fork_base.copy(self._next_pid, name)
        if self.initializer is not None:
            self._in_worker(im, lambda: self.initializer(*self.initargs))
        return im

    def _in_worker(self, im: Image, fn: Callable[[], Any]) -> Any:
        """Run fn under the worker image `im`; the parent image is live again afterwards."""
        parent_now = Image.capture(0, "MainProcess")
        im.apply()
        try:
            return fn()
        finally:
            new = Image.capture(im.pid, im.name)
            im.gen_states, im.np_legacy, im.py_random, im.state = \
                new.gen_states, new.np_legacy, new.py_random, new.state
            parent_now.apply()

    # ------------------------------------------------------------ context manager
    def __enter__(self):
        if self._closed:
            raise ValueError("Pool not running")
        return self

    def __exit__(self, *a):
        self.terminate()
        return False

    def close(self):
        self._closed = True

    def terminate(self):
        self._closed = True

    def join(self):
        return None

    def __reduce__(self):
        raise NotImplementedError("pool objects cannot be passed between processes or pickled")

    def __deepcopy__(self, memo):
        return self  # a forked child inherits the handle; it is the same pool

    # ------------------------------------------------------------------ map family
    def _run_chunks(self, func: Callable, iterable: Iterable, mapper: Callable, chunksize: int | None,
                    ordered: bool = True) -> list:
        from . import simthreads
        with simthreads.no_preempt():  # process images are swapped in and out: not a point to park a simulated thread
            return self._run_chunks_now(func, iterable, mapper, chunksize, ordered)

    def _run_chunks_now(self, func: Callable, iterable: Iterable, mapper: Callable, chunksize: int | None,
                        ordered: bool = True) -> list:
        if self._closed:
            raise ValueError("Pool not running")
        sim = self.sim
        if not hasattr(iterable, "__len__"):
            iterable = list(iterable)
        n = len(iterable)
        if chunksize is None:
            chunksize, extra = divmod(n, self.processes * 4)
            if extra:
                chunksize += 1
        if n == 0:
            return []
        chunksize = max(1, chunksize)
        it = iter(iterable)
        chunks = []
        while True:
            x = tuple(itertools.islice(it, chunksize))
            if not x:
                break
            chunks.append(x)
        # every chunk is pickled from the parent's state at dispatch
        try:
            blobs = [_fp_dumps((mapper, (func, c))) for c in chunks]
        except Exception as e:
            sim.event("pool", "pickling-failed", type(e).__name__)
            raise
        sim.event("pool", "map", n, chunksize, len(chunks))
        if any(len(c) >= 2 for c in chunks):
            sim.probe("chunk_with_2plus_tasks")
        if self.processes > len(chunks):
            sim.probe("more_workers_than_chunks")
        results: list[Any] = [None] * len(chunks)
        failure: tuple[int, BaseException] | None = None
        assignment = []
        for i, blob in enumerate(blobs):
            shift = sim.choose(self.processes, "worker-for-chunk")
            w = (i + shift) % self.processes
            if shift:
                sim.faults["chunk_taken_out_of_turn"] += 1  # some worker stalled / raced ahead
            if self.maxtasksperchild and self.tasks_done[w] >= self.maxtasksperchild:
                self.workers[w] = self._new_worker(w)
                self.tasks_done[w] = 0
                sim.event("pool", "worker-replaced", w)
            assignment.append(w)
            self.chunks_by_worker[w] += 1
            if self.chunks_by_worker[w] >= 2:
                sim.probe("worker_ran_2plus_chunks")
            sim.sim_time += 1

            def job(blob=blob):
                mp, payload = _loads(blob)
                out = mp(payload)
                return _fp_dumps(out)
            try:
                out_blob = self._in_worker(self.workers[w], job)
                self.tasks_done[w] += 1
                results[i] = _loads(out_blob)
            except Exception as e:  # worker exception: re-raised in the parent by get()
                if failure is None:
                    failure = (i, e)
        sim.schedule(self.processes, len(chunks), tuple(assignment), self.model)
        sim.event("pool", "schedule", assignment)
        if failure is not None:
            raise failure[1]
        flat = list(itertools.chain.from_iterable(results))
        if not ordered:
            flat = sim.shuffled(flat, "completion-order")
        return flat

    def map(self, func, iterable, chunksize=None):
        return self._run_chunks(func, iterable, mapstar, chunksize)

    def starmap(self, func, iterable, chunksize=None):
        return self._run_chunks(func, iterable, starmapstar, chunksize)

    def _async(self, fn: Callable[[], Any], callback=None, error_callback=None) -> _Result:
        try:
            v = fn()
        except Exception as e:
            if error_callback:
                error_callback(e)
            return _Result(exc=e)
        if callback:
            callback(v)
        return _Result(v)

    def map_async(self, func, iterable, chunksize=None, callback=None, error_callback=None):
        return self._async(lambda: self.map(func, iterable, chunksize), callback, error_callback)

    def starmap_async(self, func, iterable, chunksize=None, callback=None, error_callback=None):
        return self._async(lambda: self.starmap(func, iterable, chunksize), callback, error_callback)

    def imap(self, func, iterable, chunksize=1):
        return iter(self._run_chunks(func, iterable, mapstar, chunksize))

    def imap_unordered(self, func, iterable, chunksize=1):
        return iter(self._run_chunks(func, iterable, mapstar, chunksize, ordered=False))

    def apply(self, func, args=(), kwds={}):
        return self.apply_async(func, args, kwds).get()

    def apply_async(self, func, args=(), kwds={}, callback=None, error_callback=None):
        def call(a, k):
            return func(*a, **k)
        return self._async(lambda: self._run_chunks(_apply_star, [(func, args, kwds)], mapstar, 1)[0],
                           callback, error_callback)


def _apply_star(t):
    func, args, kwds = t
    return func(*args, **kwds)


class SimThreadPool(SimPool):
    """Thread-flavoured pool: tasks run unpickled and share memory; up to `processes` of them are in flight
    at a time, interleaved between package lines by the tape (sim/simthreads.py)."""

    def _run_chunks(self, func, iterable, mapper, chunksize, ordered=True):
        from . import simthreads
        sim = self.sim
        items = list(iterable)
        order = sim.shuffled(range(len(items)), "thread-task-order")
        out: list[Any] = [None] * len(items)
        width = max(1, min(self.processes, 4))
        for start in range(0, len(order), width):
            batch = order[start:start + width]
            thunks = [(lambda it=items[i]: func(*it) if mapper is starmapstar else func(it)) for i in batch]
            res = simthreads.interleave(sim, thunks) if len(thunks) > 1 else [thunks[0]()]
            for i, r in zip(batch, res):
                out[i] = r
        sim.event("threadpool", "map", len(items), order)
        return out if ordered else [out[i] for i in order]


# ----------------------------------------------------------------------- install
def _sim_getpid() -> int:
    return _STATE.get("pid", 0) or _STATE["saved"]["getpid"]()


def install(sim: Sim, image_model: str = "fork", cpu_count: int = 4) -> None:
    if _STATE["installed"]:
        raise HarnessError("SimPool already installed")
    record_import_scalars()
    if os.environ.get("VERIF_ONLY_FORK"):  # experiments only: what would the checks see on a fork-only platform
        image_model = "fork"
    _STATE.update(sim=sim, installed=True, image_model=image_model, cpu_count=cpu_count, pools=0, pid=0)
    saved = _STATE["saved"] = {}
    saved["mp.Pool"] = multiprocessing.Pool
    saved["pool.Pool"] = multiprocessing.pool.Pool
    saved["pool.ThreadPool"] = multiprocessing.pool.ThreadPool
    saved["getpid"] = os.getpid
    saved["cpu_count"] = os.cpu_count
    saved["proc_name"] = multiprocessing.current_process().name
    multiprocessing.Pool = SimPool
    multiprocessing.pool.Pool = SimPool
    multiprocessing.pool.ThreadPool = SimThreadPool
    saved["cf.ppe"], saved["cf.tpe"] = _cf.ProcessPoolExecutor, _cf.ThreadPoolExecutor
    _cf.ProcessPoolExecutor, _cf.ThreadPoolExecutor = SimProcessExecutor, SimThreadExecutor
    os.cpu_count = lambda: cpu_count
    os.getpid = _sim_getpid
    saved["modattrs"] = []
    real_pool_fns = (saved["mp.Pool"], saved["pool.Pool"])
    for name, mod in _pkg_modules():
        for k, v in list(vars(mod).items()):
            if v is saved["pool.ThreadPool"]:
                saved["modattrs"].append((mod, k, v))
                setattr(mod, k, SimThreadPool)
            elif v is saved["cf.ppe"]:
                saved["modattrs"].append((mod, k, v))
                setattr(mod, k, SimProcessExecutor)
            elif v is saved["cf.tpe"]:
                saved["modattrs"].append((mod, k, v))
                setattr(mod, k, SimThreadExecutor)
            elif any(v is f for f in real_pool_fns) or (callable(v) and getattr(v, "__func__", None) is
                                                        getattr(saved["mp.Pool"], "__func__", object())):
                saved["modattrs"].append((mod, k, v))
                setattr(mod, k, SimPool)


def uninstall() -> None:
    if not _STATE["installed"]:
        return
    saved = _STATE["saved"]
    multiprocessing.Pool = saved["mp.Pool"]
    multiprocessing.pool.Pool = saved["pool.Pool"]
    multiprocessing.pool.ThreadPool = saved["pool.ThreadPool"]
    _cf.ProcessPoolExecutor, _cf.ThreadPoolExecutor = saved["cf.ppe"], saved["cf.tpe"]
    os.cpu_count = saved["cpu_count"]
    os.getpid = saved["getpid"]
    multiprocessing.current_process().name = saved["proc_name"]
    for mod, k, v in saved["modattrs"]:
        setattr(mod, k, v)
    _STATE.update(sim=None, installed=False)


class installed:
    def __init__(self, sim: Sim, image_model: str = "fork", cpu_count: int = 4) -> None:
        self.args = (sim, image_model, cpu_count)

    def __enter__(self):
        install(*self.args)
        return self

    def __exit__(self, *a):
        uninstall()
        return False


class real_pool:
    """Temporarily hand the real multiprocessing.Pool back (calibration of the stub)."""

    def __enter__(self):
        self.was = _STATE["installed"]
        self.args = (_STATE["sim"], _STATE["image_model"], _STATE["cpu_count"])
        if self.was:
            uninstall()
        self.esc = seams.allow_escape()
        self.esc.__enter__()
        return self

    def __exit__(self, *a):
        self.esc.__exit__(*a)
        if self.was:
            install(*self.args)
        return False


# ------------------------------------------------------- concurrent.futures stand-ins
import concurrent.futures as _cf  # noqa: E402


class _LazyFuture(_cf.Future):
    """A future whose task runs when somebody waits for it (or at shutdown)."""

    def __init__(self, owner: "SimThreadExecutor") -> None:
        super().__init__()
        self._owner = owner

    def result(self, timeout=None):
        self._owner._drain(self)
        return super().result(0)

    def exception(self, timeout=None):
        self._owner._drain(self)
        return super().exception(0)


class SimProcessExecutor:
    """concurrent.futures.ProcessPoolExecutor over SimPool (one pickled task per submit)."""

    def __init__(self, max_workers=None, mp_context=None, initializer=None, initargs=(), **kw):
        self._pool = SimPool(max_workers, initializer, initargs)

    def submit(self, fn, /, *args, **kwargs):
        f: _cf.Future = _cf.Future()
        try:
            f.set_result(self._pool._run_chunks(_apply_star, [(fn, args, kwargs)], mapstar, 1)[0])
        except Exception as e:
            f.set_exception(e)
        return f

    def map(self, fn, *iterables, timeout=None, chunksize=1):
        return iter(self._pool._run_chunks(fn, list(zip(*iterables)), starmapstar, chunksize))

    def shutdown(self, wait=True, *, cancel_futures=False):
        self._pool.terminate()

    def __enter__(self):
        return self

    def __exit__(self, *a):
        self.shutdown()
        return False


class SimThreadExecutor:
    """concurrent.futures.ThreadPoolExecutor: tasks share memory and run one at a time in a scheduler-chosen order."""

    def __init__(self, max_workers=None, thread_name_prefix="", initializer=None, initargs=()):
        self.sim: Sim = _STATE["sim"]
        self._pending: list[tuple[_LazyFuture, Callable, tuple, dict]] = []
        if initializer is not None:
            initializer(*initargs)

    def submit(self, fn, /, *args, **kwargs):
        f = _LazyFuture(self)
        self._pending.append((f, fn, args, kwargs))
        return f

    def _drain(self, until: _cf.Future | None) -> None:
        while self._pending and (until is None or not until.done()):
            i = self.sim.choose(len(self._pending), "thread-task-order")
            f, fn, args, kwargs = self._pending.pop(i)
            self.sim.event("threadexecutor", "run", i)
            try:
                f.set_result(fn(*args, **kwargs))
            except Exception as e:
                f.set_exception(e)

    def map(self, fn, *iterables, timeout=None, chunksize=1):
        futures = [self.submit(fn, *a) for a in zip(*iterables)]
        self._drain(None)
        return iter([f.result() for f in futures])

    def shutdown(self, wait=True, *, cancel_futures=False):
        self._drain(None)

    def __enter__(self):
        return self

    def __exit__(self, *a):
        self.shutdown()
        return False
