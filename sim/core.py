"""Simulator core: choice tape, event log / digest, violations, run execution.

One integer decides everything: a run is identified by (property, VERIF_SEED,
run index).  Every decision of a run goes through `Sim.choose`, which in record
mode draws from the run's PRNG and appends to the *choice tape* and in replay
mode reads the tape.  The tape is the replay file's authoritative content.
"""
from __future__ import annotations

import hashlib
import random
import traceback
from collections import Counter
from typing import Any, Callable, Sequence

MAX_TRACE_EVENTS = 400


class Violation(Exception):
    """A property violation found by an oracle."""

    def __init__(self, clause: str, detail: Any = None) -> None:
        super().__init__(f"{clause}: {detail}")
        self.clause = clause
        self.detail = detail


class HarnessError(Exception):
    """Something is wrong with the harness, not with the system under test."""


class SimKill(BaseException):
    """The simulated process is dead (not an Exception: nothing catches it)."""


class SimInterrupt(KeyboardInterrupt):
    """A simulated KeyboardInterrupt."""


def derive_seed(verif_seed: int, prop: str, index: int) -> int:
    h = hashlib.sha256(f"{verif_seed}/{prop}/{index}".encode()).digest()
    return int.from_bytes(h[:8], "big")


def stable_hash(key: Any) -> int:
    """48-bit hash that does not depend on PYTHONHASHSEED."""
    return int.from_bytes(hashlib.blake2b(repr(_plain(key)).encode(), digest_size=6).digest(), "big")


def _plain(x: Any) -> Any:
    """Reduce to plain python values with a stable repr."""
    import numpy as np
    if isinstance(x, (str, int, bool)) or x is None:
        return x
    if isinstance(x, float):
        return repr(x)
    if isinstance(x, (np.integer,)):
        return int(x)
    if isinstance(x, (np.floating,)):
        return repr(float(x))
    if isinstance(x, np.ndarray):
        return hashlib.sha256(np.ascontiguousarray(x).tobytes()).hexdigest()[:16]
    if isinstance(x, bytes):
        return hashlib.sha256(x).hexdigest()[:16]
    if isinstance(x, (list, tuple)):
        return [_plain(i) for i in x]
    if isinstance(x, dict):
        return {str(k): _plain(v) for k, v in sorted(x.items(), key=lambda kv: str(kv[0]))}
    if isinstance(x, (set, frozenset)):
        return sorted(_plain(i) for i in x)
    return repr(x)


def _sig_match(listed: dict, computed: dict) -> bool:
    """A listed signature matches iff it has exactly the computed keys and every value is equal
    (a listed value that is a list means "any of these")."""
    if set(listed) != set(computed):
        return False
    for k, v in listed.items():
        c = computed[k]
        if isinstance(v, list):
            if c not in v:
                return False
        elif v != c:
            return False
    return True


class Sim:
    """State of one simulated run."""

    def __init__(self, prop: str, seed: int, tape: Sequence[int] | None = None,
                 tier: str = "quick") -> None:
        self.prop = prop
        self.seed = seed
        self.tier = tier
        self.replaying = tape is not None
        self._replay: Sequence[int] = tape if tape is not None else ()
        self._rng = random.Random(seed)
        self.tape: list[int] = []
        self._hash = hashlib.sha256()
        self.trace: list[Any] = []
        self.events = 0
        self.ops: Counter = Counter()
        self.faults: Counter = Counter()
        self.probes: Counter = Counter()
        self.states: set[int] = set()
        self.schedules: set[int] = set()
        self.oracle_evals = 0
        self.mutations = 0
        self.nontrivial = False
        self.known_seen: Counter = Counter()
        self.known_findings: list[dict] = []
        self.sim_time = 0
        self.validated_against_impl = 0
        self.crash_points = 0
        self.config: dict[str, Any] = {}
        self.escapes = 0

    # ------------------------------------------------------------------ choices
    def choose(self, n: int, label: str = "") -> int:
        """Return an int in [0, n).  0 is by convention the simplest alternative."""
        if n <= 1:
            return 0
        pos = len(self.tape)
        if self.replaying:
            v = self._replay[pos] % n if pos < len(self._replay) else 0
        else:
            v = self._rng.randrange(n)
        self.tape.append(v)
        return v

    def flip(self, num: int, den: int, label: str = "") -> bool:
        """True with probability num/den; tape value 0 always means False."""
        return self.choose(den, label) >= den - num

    def pick(self, items: Sequence[Any], label: str = "") -> Any:
        return items[self.choose(len(items), label)]

    def pick_weighted(self, weighted: Sequence[tuple[Any, int]], label: str = "") -> Any:
        total = sum(w for _, w in weighted)
        v = self.choose(total, label)
        for item, w in weighted:
            if v < w:
                return item
            v -= w
        raise HarnessError("pick_weighted fell through")

    def subset(self, items: Sequence[Any], label: str = "", num: int = 1, den: int = 2) -> list[Any]:
        return [x for x in items if self.flip(num, den, label)]

    def shuffled(self, items: Sequence[Any], label: str = "") -> list[Any]:
        pool = list(items)
        out = []
        while pool:
            out.append(pool.pop(self.choose(len(pool), label)))
        return out

    def np_rng(self, label: str = ""):
        import numpy as np
        return np.random.Generator(np.random.PCG64(self.choose(2 ** 32, label)))

    # ------------------------------------------------------------------ logging
    def event(self, *items: Any) -> None:
        p = _plain(items)
        self._hash.update(repr(p).encode())
        self.events += 1
        if len(self.trace) < MAX_TRACE_EVENTS:
            self.trace.append(p)

    def op(self, kind: str, *items: Any, mutating: bool = True) -> None:
        self.ops[kind] += 1
        if mutating:
            self.mutations += 1
        self.event("op", kind, *items)

    def fault(self, kind: str, *items: Any) -> None:
        self.faults[kind] += 1
        self.event("fault", kind, *items)

    def probe(self, name: str, n: int = 1) -> None:
        self.probes[name] += n

    def state(self, *key: Any) -> None:
        self.states.add(stable_hash(key))

    def schedule(self, *key: Any) -> None:
        self.schedules.add(stable_hash(key))

    def checked(self, n: int = 1) -> None:
        """Record that oracle clauses were evaluated."""
        self.oracle_evals += n
        if self.mutations:
            self.nontrivial = True

    @property
    def digest(self) -> str:
        return self._hash.hexdigest()

    # --------------------------------------------------------------- violations
    def fail(self, clause: str, detail: Any = None, signature: dict | None = None,
             what: str = "") -> None:
        """Report a violated clause.

        If `signature` matches a listed known finding on every key, the finding
        is counted and the run continues; otherwise a Violation is raised.
        """
        if signature is not None:
            for kf in self.known_findings:
                sig = kf.get("signature", {})
                if kf.get("property") == self.prop and _sig_match(sig, signature):
                    self.known_seen[kf["id"]] += 1
                    self.event("known-finding", kf["id"])
                    return
        self.event("violation", clause)
        raise Violation(clause, _plain(detail))

    def require(self, cond: bool, clause: str, detail: Any = None) -> None:
        if not cond:
            self.fail(clause, detail() if callable(detail) else detail)

    def guard(self, clause: str, expect: tuple = ()):
        return _Guard(self, clause, expect)


class _Guard:
    """Turn an unexpected exception of the system under test into a Violation."""

    def __init__(self, sim: Sim, clause: str, expect: tuple) -> None:
        self.sim, self.clause, self.expect = sim, clause, expect

    def __enter__(self):
        return self

    def __exit__(self, et, ev, tb):
        if et is None:
            return False
        if issubclass(et, (Violation, HarnessError, SimKill, SimInterrupt)):
            return False
        if self.expect and issubclass(et, self.expect):
            return False
        if issubclass(et, Exception):
            last = traceback.extract_tb(tb)[-1]
            self.sim.event("violation", self.clause)
            raise Violation(self.clause, f"{et.__name__}: {ev} at {last.filename.split('/')[-1]}:{last.lineno}") from ev
        return False


class RunResult:
    """Plain, picklable outcome of one run."""

    __slots__ = ("prop", "seed", "index", "tape", "digest", "events", "ops", "faults", "probes",
                 "states", "schedules", "oracle_evals", "nontrivial", "violation", "known_seen",
                 "trace", "config", "sim_time", "validated", "crash_points", "error", "escapes")

    def __init__(self) -> None:
        for s in self.__slots__:
            setattr(self, s, None)


def execute(prop: str, run_fn: Callable[[Sim], None], seed: int, tape: Sequence[int] | None,
            tier: str, known_findings: list[dict], index: int = -1) -> RunResult:
    """Execute one simulated run and return its plain result."""
    from . import seams
    sim = Sim(prop, seed, tape, tier)
    sim.known_findings = known_findings
    res = RunResult()
    res.prop, res.seed, res.index = prop, seed, index
    res.violation = None
    res.error = None
    try:
        seams.begin_run(sim)
        run_fn(sim)
    except Violation as v:
        res.violation = {"clause": v.clause, "detail": v.detail}
    except (SimKill, SimInterrupt) as e:
        res.error = f"leaked {type(e).__name__}\n" + traceback.format_exc()
    except Exception as e:  # harness defect or unguarded SUT exception
        res.error = f"{type(e).__name__}: {e}\n" + traceback.format_exc()
    finally:
        seams.end_run(sim)
    res.tape = list(sim.tape)
    res.digest = sim.digest
    res.events = sim.events
    res.ops, res.faults, res.probes = dict(sim.ops), dict(sim.faults), dict(sim.probes)
    res.states, res.schedules = sim.states, sim.schedules
    res.oracle_evals, res.nontrivial = sim.oracle_evals, sim.nontrivial
    res.known_seen = dict(sim.known_seen)
    res.trace = sim.trace
    res.config = _plain(sim.config)
    res.sim_time = sim.sim_time
    res.validated = sim.validated_against_impl
    res.crash_points = sim.crash_points
    res.escapes = sim.escapes
    return res
