"""Harness-owned hidden games, independent class predicates and the fresh-object oracle.

Nothing here uses the package's generators or predicates, so that a broken
generator / predicate cannot mask a broken consumer.  Games are plain float64
vectors of length 2**n indexed by coalition id (bitmask over players).
"""
from __future__ import annotations

from typing import Any, Sequence

import numpy as np

from .core import Sim


def popcount(x: int) -> int:
    return bin(x).count("1")


def submasks(s: int):
    """Proper non-empty sub-masks a of s (with complement s ^ a also proper non-empty)."""
    a = (s - 1) & s
    while a:
        yield a
        a = (a - 1) & s


def by_size(n: int) -> list[int]:
    return sorted(range(2 ** n), key=lambda s: (popcount(s), s))


def minimal_ids(n: int) -> list[int]:
    return [0, 2 ** n - 1] + [1 << i for i in range(n)]


def explorable_ids(n: int) -> list[int]:
    m = set(minimal_ids(n))
    return [s for s in range(2 ** n) if s not in m]


def sa_closure(base: np.ndarray, n: int) -> np.ndarray:
    """Smallest superadditive game above `base` (v(empty) = 0)."""
    v = np.array(base, dtype=np.float64)
    v[0] = 0.0
    for s in by_size(n):
        if popcount(s) < 2:
            continue
        best = v[s]
        for a in submasks(s):
            c = v[a] + v[s ^ a]
            if c > best:
                best = c
        v[s] = best
    return v


def is_sa(v: np.ndarray, n: int, tol: float = 0.0) -> bool:
    for s in range(2 ** n):
        for a in submasks(s):
            if v[a] + v[s ^ a] > v[s] + tol:
                return False
    return True


def is_mono_dec(v: np.ndarray, n: int, tol: float = 0.0) -> bool:
    """v(A) >= v(S) whenever A subset of S."""
    for s in range(2 ** n):
        for i in range(n):
            if s & (1 << i):
                if v[s ^ (1 << i)] < v[s] - tol:
                    return False
    return True


def tolerance(v: np.ndarray) -> float:
    return 1e-9 * max(1.0, float(np.max(np.abs(v))))


# ------------------------------------------------------------------ drawing games
def draw_sa(sim: Sim, n: int) -> tuple[np.ndarray, bool]:
    """A superadditive game; returns (values, exact)."""
    mode = sim.pick(["int", "dyadic", "float", "intwide", "offset", "huge", "fine"], "sa-mode")
    rng = sim.np_rng("sa-values")
    if mode == "int":
        base = rng.integers(-8, 9, 2 ** n).astype(np.float64)
    elif mode == "intwide":
        base = rng.integers(-1000, 1001, 2 ** n).astype(np.float64)
    elif mode == "dyadic":
        base = rng.integers(-64, 65, 2 ** n).astype(np.float64) / 16.0
    elif mode == "offset":
        # values of large magnitude with unit-sized structure: a large additive part plus small integer synergies
        m = float(rng.choice([1e4, 1e6, 1e8])) * (1 if rng.random() < 0.7 else -1)
        sizes = np.array([popcount(s) for s in range(2 ** n)], dtype=np.float64)
        base = m * sizes + rng.integers(-3, 4, 2 ** n).astype(np.float64)
    elif mode == "huge":
        # exactly representable integers far beyond 2**31 (all sums stay below 2**53)
        base = rng.integers(-8, 9, 2 ** n).astype(np.float64) * float(10 ** int(rng.integers(9, 13)))
    elif mode == "fine":
        # dyadic values with very fine resolution next to values of ordinary size
        base = rng.integers(-8, 9, 2 ** n).astype(np.float64) + rng.integers(-3, 4, 2 ** n).astype(np.float64) * 2.0 ** -20
    else:
        base = rng.normal(0.0, 10.0 ** rng.integers(-2, 4), 2 ** n)
    v = sa_closure(base, n)
    return v, mode != "float"


def draw_sam(sim: Sim, n: int) -> tuple[np.ndarray, bool]:
    """A superadditive, monotone non-increasing game v = -f; returns (values, exact)."""
    kind = sim.pick(["coverage", "budget", "xos", "unit", "mixed"], "sam-kind")
    rng = sim.np_rng("sam-values")
    ids = np.arange(2 ** n)
    member = [(ids >> i) & 1 for i in range(n)]
    if kind == "coverage":
        m = int(rng.integers(2, 2 * n + 1))
        sets = rng.integers(1, 2 ** m, n)  # non-empty subsets of the universe
        f = np.zeros(2 ** n)
        for s in range(2 ** n):
            u = 0
            for i in range(n):
                if s >> i & 1:
                    u |= int(sets[i])
            f[s] = popcount(u)
    elif kind == "budget":
        k = int(rng.integers(1, n + 1))
        f = np.array([min(k, popcount(s)) for s in range(2 ** n)], dtype=np.float64)
    elif kind == "unit":
        w = rng.integers(0, 10, n).astype(np.float64)
        f = np.array([max([w[i] for i in range(n) if s >> i & 1], default=0.0) for s in range(2 ** n)])
    else:  # xos / mixed: maximum of non-negative additive functions
        k = int(rng.integers(1, 5))
        adds = []
        for _ in range(k):
            w = rng.integers(0, 10, n).astype(np.float64)
            adds.append(sum(w[i] * member[i] for i in range(n)))
        f = np.max(np.array(adds), axis=0).astype(np.float64)
        if kind == "mixed":
            f = np.minimum(f, float(rng.integers(1, 12)))  # capped: still monotone and subadditive
    exact = True
    if sim.flip(1, 3, "sam-float"):
        f = f * float(rng.uniform(0.1, 3.0))
        exact = False
    v = -f
    v[0] = 0.0
    return v.astype(np.float64), exact


def draw_any(sim: Sim, n: int) -> tuple[np.ndarray, bool]:
    rng = sim.np_rng("any-values")
    if sim.flip(1, 3, "any-sparse"):
        # an additive integer game with a few integer perturbations: most intervals are degenerate, gaps are small
        # exact numbers (0, +-1, +-1/2, ...) - the values special-cased code tends to treat as "empty" or "done"
        w = rng.integers(-3, 4, n).astype(np.float64)
        v = np.array([sum(w[i] for i in range(n) if s >> i & 1) for s in range(2 ** n)], dtype=np.float64)
        for _ in range(int(rng.integers(1, 4))):
            s_ = int(rng.integers(1, 2 ** n))
            if popcount(s_) >= 2:
                v[s_] += float(rng.integers(-3, 4)) * (popcount(s_) if rng.random() < 0.5 else 1)
        v[0] = 0.0
        return v, True
    if sim.flip(1, 2, "any-float"):
        v = rng.normal(0, 5, 2 ** n)
        exact = False
    else:
        v = rng.integers(-20, 21, 2 ** n).astype(np.float64)
        exact = True
    v[0] = 0.0
    return v, exact


def draw_game(sim: Sim, n: int, cls: str) -> tuple[np.ndarray, bool]:
    """Draw a hidden game of class SA / SAM / ANY and check the premise independently."""
    if cls == "SA":
        v, exact = draw_sa(sim, n)
        ok = is_sa(v, n, 0.0)
    elif cls == "SAM":
        v, exact = draw_sam(sim, n)
        ok = is_sa(v, n, 0.0 if exact else tolerance(v)) and is_mono_dec(v, n)
    else:
        v, exact = draw_any(sim, n)
        ok = True
    if not ok:
        from .core import HarnessError
        raise HarnessError(f"harness construction of class {cls} failed its own premise")
    return v, exact


# ------------------------------------------------------------------ package glue
def coalition(i: int):
    from incomplete_cooperative.coalitions import Coalition
    return Coalition(int(i))


def coalitions(ids: Sequence[int]):
    return [coalition(i) for i in ids]


def computer(name: str):
    from incomplete_cooperative.bounds import BOUNDS
    return BOUNDS[name]


def new_game(n: int, comp: Any):
    from incomplete_cooperative.game import IncompleteCooperativeGame
    return IncompleteCooperativeGame(n, comp) if comp is not None else IncompleteCooperativeGame(n)


def full_game(values: np.ndarray, n: int):
    """A fully known package game object holding `values`."""
    g = new_game(n, None)
    g.set_values(np.array(values, dtype=np.float64))
    return g


def snapshot(game: Any) -> tuple[bytes, bytes, bytes]:
    return (np.array(game.are_values_known()).tobytes(),
            np.array(game.get_lower_bounds(), dtype=np.float64).tobytes(),
            np.array(game.get_upper_bounds(), dtype=np.float64).tobytes())


def arrays(game: Any) -> tuple[np.ndarray, np.ndarray, np.ndarray]:
    return (np.array(game.are_values_known()), np.array(game.get_lower_bounds(), dtype=np.float64),
            np.array(game.get_upper_bounds(), dtype=np.float64))


def fresh(n: int, comp: Any, known_ids: Sequence[int], values: np.ndarray):
    """The no-history oracle: a brand-new object told exactly K, computed once."""
    g = new_game(n, comp)
    ids = sorted(set(int(i) for i in known_ids))
    g.set_known_values([values[i] for i in ids], coalitions(ids))
    g.compute_bounds()
    return g


def fresh_pristine(n: int, comp: Any, known_ids: Sequence[int], values: np.ndarray):
    """The no-history oracle computed in a *fresh process*: the package's process state (memos, module-level
    caches, lazily built tables) is put aside, the fresh object is computed on pristine state, and the
    current process state is put back.  Costs ~2-3 ms, so callers sample it."""
    from . import seams
    state = seams.capture_process_state()
    seams.apply_process_state(None)
    try:
        return fresh(n, comp, known_ids, values)
    finally:
        seams.apply_process_state(state)


def tabulate(game: Any) -> np.ndarray:
    """Values of a complete game object (table or graph) as a vector."""
    return np.array(game.get_values(), dtype=np.float64)


def gap_functions() -> dict[str, Any]:
    from incomplete_cooperative.exploitability import compute_exploitability
    from incomplete_cooperative.norms import l1_norm, l2_norm, linf_norm
    return {"exploitability": compute_exploitability, "l1_norm": l1_norm,
            "l2_norm": l2_norm, "linf_norm": linf_norm}


SA_COMPUTERS = ["superadditive", "superadditive_cached"]
SAM_COMPUTERS = ["sam_apx_1", "sam_apx_10", "sam_apx_100", "sam_apx_1000"]


def computers_for(cls: str, n: int, heavy_ok: bool = False) -> list[str]:
    """Registered computers that are sound for games of class `cls`."""
    from incomplete_cooperative.bounds import BOUNDS
    names = [k for k in BOUNDS if k in SA_COMPUTERS]
    if cls == "SAM":
        names += [k for k in BOUNDS if k.startswith("sam_apx_")]
    if n > 3 or not heavy_ok:
        names = [k for k in names if k not in ("sam_apx_100", "sam_apx_1000")] or names
    return names
