"""Environment machine (EM) helpers: hidden-game sources owned by the harness,
environment construction, public-state snapshots and the C09 reference oracle."""
from __future__ import annotations

from typing import Any, Callable, Sequence

import numpy as np

from . import games
from .core import Sim


class ListSource:
    """A hidden-game source that replays harness-owned value vectors (picklable)."""

    def __init__(self, values_list: list[np.ndarray], n: int) -> None:
        self.values_list = [np.array(v, dtype=np.float64) for v in values_list]
        self.n = n
        self.drawn = 0
        self.fail_next: type | None = None  # injected fault: the next draw raises this (once), drawing nothing

    def current(self) -> np.ndarray:
        return self.values_list[(self.drawn - 1) % len(self.values_list)]

    def __call__(self, *_: Any):
        if self.fail_next is not None:
            exc, self.fail_next = self.fail_next, None
            raise exc("injected: the hidden-game source failed")
        v = self.values_list[self.drawn % len(self.values_list)]
        self.drawn += 1
        return games.full_game(v, self.n)


class RegistrySource:
    """A registered generator with a private seeded numpy Generator (picklable)."""

    def __init__(self, key: str, n: int, seed: int) -> None:
        self.key, self.n = key, n
        self.rng = np.random.Generator(np.random.PCG64(seed))
        self.drawn = 0
        self.last: np.ndarray | None = None
        self.fail_next: type | None = None

    def current(self) -> np.ndarray:
        assert self.last is not None
        return self.last

    def __call__(self, *_: Any):
        if self.fail_next is not None:
            exc, self.fail_next = self.fail_next, None
            raise exc("injected: the hidden-game source failed")
        from incomplete_cooperative.generators import GENERATORS
        g = GENERATORS[self.key](self.n, self.rng)
        self.drawn += 1
        self.last = games.tabulate(g)
        return g


def make_env(n: int, comp_name: str, source: Callable, gap: Callable, budget: int | None,
             initial_extra: Sequence[int] = ()):
    """An ICG_Gym whose initially known coalitions are the minimal information plus `initial_extra` ids."""
    from incomplete_cooperative.coalitions import minimal_game_coalitions
    from incomplete_cooperative.icg_gym import ICG_Gym
    g = games.new_game(n, games.computer(comp_name) if comp_name else None)
    initially = list(minimal_game_coalitions(g)) + games.coalitions(list(initial_extra))
    return ICG_Gym(g, source, initially, gap, done_after_n_actions=budget)


def env_snapshot(env: Any) -> dict[str, Any]:
    k, lo, up = games.snapshot(env.incomplete_game)
    return {
        "known": k, "lower": lo, "upper": up,
        "steps_taken": int(env.steps_taken),
        "hidden": np.array(env.full_game.get_values(), dtype=np.float64).tobytes(),
        "normalized": np.array(env.normalized_game.get_values(), dtype=np.float64).tobytes(),
        "mask": np.array(env.action_masks()).tobytes(),
        "state": np.array(env.state, dtype=np.float64).tobytes(),
        "reward": np.float64(env.reward).tobytes(),
        "done": bool(env.done),
    }


def diff_snapshot(a: dict, b: dict) -> list[str]:
    return [k for k in a if a[k] != b[k]]


def independent_normalized(v: np.ndarray, n: int) -> np.ndarray | None:
    """(v(S) - sum of singletons in S) / surplus, or None when the surplus is ill-conditioned."""
    single = np.array([v[1 << i] for i in range(n)])
    add = np.array([sum(single[i] for i in range(n) if s >> i & 1) for s in range(2 ** n)])
    surplus = v[2 ** n - 1] - add[2 ** n - 1]
    scale = max(1.0, float(np.max(np.abs(v))))
    if abs(surplus) <= 1e-6 * scale:
        return None
    return (v - add) / surplus


def check_env(sim: Sim, env: Any, n: int, comp_name: str, gap: Callable, hidden: np.ndarray,
              revealed: list[int], steps: int, budget: int | None, class_matched: bool, exact: bool,
              P: str, ret: tuple | None = None, last_action: int | None = None, extras: Sequence[int] = ()) -> None:
    """The C09 oracle: every clause about the environment's public outputs.

    `extras`: coalitions the environment was told to know initially, beyond the minimal information."""
    N = 2 ** n
    minimal = games.minimal_ids(n) + [e for e in extras]
    explorable = [e for e in games.explorable_ids(n) if e not in set(extras)]
    ctx = {"n": n, "computer": comp_name, "revealed_actions": list(revealed), "steps": steps}
    exp_known = set(minimal) | {explorable[a] for a in revealed}
    known = np.array(env.incomplete_game.are_values_known())
    got_known = {int(i) for i in np.nonzero(known)[0]}
    sim.checked()
    if got_known != exp_known:
        sim.fail(f"{P}.known_set", {**ctx, "expected": sorted(exp_known), "got": sorted(got_known)})
    hv = np.array(env.full_game.get_values(), dtype=np.float64)
    if hv.tobytes() != np.array(hidden, dtype=np.float64).tobytes():
        sim.fail(f"{P}.hidden_game_is_not_the_sources_draw", ctx)
    lo = np.array(env.incomplete_game.get_lower_bounds(), dtype=np.float64)
    up = np.array(env.incomplete_game.get_upper_bounds(), dtype=np.float64)
    for i in exp_known:
        if lo[i] != hidden[i] or up[i] != hidden[i]:
            sim.fail(f"{P}.known_value", {**ctx, "coalition": i, "hidden": float(hidden[i]),
                                          "lower": float(lo[i]), "upper": float(up[i])})
    # explorable list and mask
    if [c.id for c in env.explorable_coalitions] != explorable:
        sim.fail(f"{P}.explorable_set", {**ctx, "got": [c.id for c in env.explorable_coalitions]})
    mask = np.array(env.action_masks())
    exp_mask = np.array([e not in exp_known for e in explorable])
    if mask.shape != exp_mask.shape or not np.array_equal(mask.astype(bool), exp_mask):
        sim.fail(f"{P}.action_mask", {**ctx, "expected": exp_mask.astype(int).tolist(),
                                      "got": mask.astype(int).tolist()})
    # observation
    state = np.array(env.state, dtype=np.float64)
    norm = np.array(env.normalized_game.get_values(), dtype=np.float64)
    exp_state = np.array([norm[e] if e in exp_known else 0.0 for e in explorable])
    if state.shape != exp_state.shape or not np.array_equal(state, exp_state):
        sim.fail(f"{P}.observation", {**ctx, "expected": exp_state.tolist(), "got": state.tolist()})
    ind = independent_normalized(hidden, n)
    if ind is not None:
        exp_ind = np.array([ind[e] if e in exp_known else 0.0 for e in explorable])
        if not np.allclose(state, exp_ind, rtol=0, atol=1e-8 * max(1.0, float(np.max(np.abs(ind))))):
            sim.fail(f"{P}.observation_not_normalised_hidden_value",
                     {**ctx, "expected": exp_ind.tolist(), "got": state.tolist()})
        sim.probe("independent_normalisation_checked")
    # reward: negated gap of freshly recomputed bounds (bit-exact)
    f = games.fresh(n, games.computer(comp_name), sorted(exp_known), hidden)
    exp_reward = -gap(f)
    reward = env.reward
    if np.float64(reward).tobytes() != np.float64(exp_reward).tobytes():
        sim.fail(f"{P}.reward_is_not_negated_gap_of_fresh_bounds",
                 {**ctx, "expected": float(exp_reward), "got": float(reward)})
    if class_matched:
        tol = 0.0 if exact else games.tolerance(hidden) * N
        if float(reward) > max(tol, 1e-9 * max(1.0, float(np.max(np.abs(hidden)))) * N):
            sim.fail(f"{P}.reward_positive", {**ctx, "reward": float(reward)})
    # done
    flo = np.array(f.get_lower_bounds())
    fup = np.array(f.get_upper_bounds())
    by_budget = budget is not None and steps >= budget
    by_exhaust = not exp_mask.any()
    by_degenerate = bool(np.all((fup - flo) == 0))
    exp_done = by_budget or by_exhaust or by_degenerate
    if bool(env.done) != exp_done:
        sim.fail(f"{P}.done", {**ctx, "expected": exp_done, "got": bool(env.done), "budget": budget,
                               "by_budget": by_budget, "by_exhaust": by_exhaust, "by_degenerate": by_degenerate})
    if exp_done:
        if by_budget and not (by_exhaust or by_degenerate):
            sim.probe("done_by_budget")
        if by_degenerate and not by_exhaust and not by_budget:
            sim.probe("done_by_degenerate_before_exhaustion")
        if by_exhaust:
            sim.probe("done_by_exhaustion")
    if int(env.steps_taken) != steps:
        sim.fail(f"{P}.step_counter", {**ctx, "got": int(env.steps_taken)})
    # returned tuple of step / unstep
    if ret is not None:
        r_state, r_reward, r_done, r_trunc, r_info = ret
        if not np.array_equal(np.array(r_state, dtype=np.float64), exp_state):
            sim.fail(f"{P}.returned_observation", {**ctx, "got": np.array(r_state).tolist()})
        if np.float64(r_reward).tobytes() != np.float64(exp_reward).tobytes():
            sim.fail(f"{P}.returned_reward", {**ctx, "expected": float(exp_reward), "got": float(r_reward)})
        if bool(r_done) != exp_done:
            sim.fail(f"{P}.returned_done", {**ctx, "expected": exp_done, "got": bool(r_done)})
        if last_action is not None:
            if r_info.get("chosen_coalition") != explorable[last_action]:
                sim.fail(f"{P}.info_chosen_coalition",
                         {**ctx, "expected": explorable[last_action], "got": r_info.get("chosen_coalition")})
    sim.state(n, comp_name, tuple(sorted(revealed)))


class OtherClientEnv:
    """A second live environment in the same process (same n, same initially known coalitions, same computer
    and gap function, another hidden game): a second client whose calls the scheduler interleaves with the
    judged one's - sometimes making the very move the judged client is about to make.  Never judged itself."""

    def __init__(self, sim: Sim, n: int, comp_name: str, gap: Callable, cls: str, extras: Sequence[int] = (),
                 budget: int | None = None) -> None:
        self.sim = sim
        self.env = None
        self.args = (n, comp_name, gap, cls, list(extras), budget)

    def act(self, upcoming: int | None = None) -> None:
        sim = self.sim
        try:
            if self.env is None:
                n, comp_name, gap, cls, extras, budget = self.args
                v2, _ = games.draw_game(sim, n, cls if cls in ("SA", "SAM") else "SA")
                self.env = make_env(n, comp_name, ListSource([v2], n), gap, budget, initial_extra=extras)
            env2 = self.env
            valid = [int(a) for a in np.nonzero(env2.action_masks())[0]]
            if not valid or sim.flip(1, 8, "other-env-reset"):
                env2.reset()
            elif upcoming is not None and upcoming in valid and sim.flip(1, 2, "other-env-lockstep"):
                env2.step(upcoming)
            else:
                env2.step(sim.pick(valid, "other-env-action"))
            sim.faults["other_live_environment_stepped"] += 1
            sim.event("other-env")
        except Exception as e:  # not judged
            sim.event("other-env-raised", type(e).__name__)

    def thunk(self, upcoming: int | None = None) -> Callable[[], None] | None:
        """One pre-decided call of the second client as a thunk for a caller thread (None: nothing to do yet)."""
        sim = self.sim
        if self.env is None:
            return None
        env2 = self.env
        valid = [int(a) for a in np.nonzero(env2.action_masks())[0]]
        if not valid:
            call = env2.reset
        elif upcoming is not None and upcoming in valid and sim.flip(1, 2, "other-env-lockstep"):
            call = lambda: env2.step(upcoming)  # noqa: E731
        else:
            a = sim.pick(valid, "other-env-action")
            call = lambda: env2.step(a)  # noqa: E731

        def run() -> None:
            try:
                call()
            except Exception:  # not judged
                pass
        return run
