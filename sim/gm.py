"""Game machine (GM): one long-lived IncompleteCooperativeGame driven through its
public mutators by several parties, with a dictionary reference model.

Shared by C01, C03, C08 (object level).  The reference model is trivial inside:
`kv` maps coalition id -> value for the currently known coalitions.
"""
from __future__ import annotations

import pickle
from typing import Any, Callable

import numpy as np

from . import games, seams
from .core import Sim


class GameHarness:
    """A game object under test plus its reference knowledge model."""

    def __init__(self, sim: Sim, n: int, comp_name: str, values: np.ndarray, tag: str = "g") -> None:
        self.sim = sim
        self.n = n
        self.comp_name = comp_name
        self.comp = games.computer(comp_name)
        self.values = values
        self.tag = tag
        self.g = games.new_game(n, self.comp)
        self.kv: dict[int, float] = {0: 0.0}
        self.minimal = games.minimal_ids(n)
        self.explorable = games.explorable_ids(n)
        self.dirty = True  # bounds not computed since the last mutation
        self.torn = False

    # ---------------------------------------------------------------- predicates
    def has_minimal(self) -> bool:
        return all(i in self.kv for i in self.minimal)

    def unknown(self) -> list[int]:
        return [i for i in range(2 ** self.n) if i not in self.kv]

    def known_nonminimal(self) -> list[int]:
        return [i for i in self.explorable if i in self.kv]

    def mask(self) -> int:
        m = 0
        for i in self.kv:
            m |= 1 << i
        return m

    # ---------------------------------------------------------------- operations
    def reset_minimal(self, extra: list[int] = ()) -> None:
        ids = sorted(set(self.minimal) | set(extra))
        self.bulk_reset(ids)

    def bulk_reset(self, ids: list[int], values: dict[int, float] | None = None) -> None:
        vals = [self.values[i] if values is None else values[i] for i in ids]
        self.sim.op("bulk_reset", self.tag, ids)
        self.g.set_known_values(vals, games.coalitions(ids))
        self.kv = {0: 0.0}
        for i, x in zip(ids, vals):
            self.kv[i] = float(x)
        self.dirty = True

    def reveal(self, i: int, value: float | None = None) -> None:
        x = float(self.values[i] if value is None else value)
        self.sim.op("reveal", self.tag, i)
        self.g.reveal_value(x, games.coalition(i))
        self.kv[i] = x
        self.dirty = True

    def unreveal(self, i: int) -> None:
        self.sim.op("unreveal", self.tag, i)
        self.g.unreveal_value(games.coalition(i))
        del self.kv[i]
        self.dirty = True

    def set(self, i: int, value: float) -> None:
        self.sim.op("set", self.tag, i, value)
        self.g.set_value(value, games.coalition(i))
        self.kv[i] = float(value)
        self.dirty = True

    def unset(self, i: int) -> None:
        self.sim.op("unset", self.tag, i)
        self.g.unset_value(games.coalition(i))
        self.kv.pop(i, None)
        self.dirty = True

    def bulk_set(self, ids: list[int], vals: list[float]) -> None:
        self.sim.op("bulk_set", self.tag, ids)
        self.g.set_values(np.array(vals, dtype=np.float64), games.coalitions(ids))
        for i, x in zip(ids, vals):
            self.kv[i] = float(x)
        self.dirty = True

    def scribble(self) -> None:
        """Write arbitrary finite numbers into bounds through the public bound setters."""
        sim = self.sim
        rng = sim.np_rng("scribble")
        how = sim.choose(4, "scribble-how")
        sim.op("scribble", self.tag, how)
        N = 2 ** self.n
        if how == 0:
            self.g.set_lower_bounds(rng.normal(0, 50, N))
            self.g.set_upper_bounds(rng.normal(0, 50, N))
        elif how == 1:
            ids = [i for i in range(N) if rng.random() < 0.5] or [N - 2]
            self.g.set_lower_bounds(rng.normal(0, 50, len(ids)), games.coalitions(ids))
            ids = [i for i in range(N) if rng.random() < 0.5] or [N - 2]
            self.g.set_upper_bounds(rng.normal(0, 50, len(ids)), games.coalitions(ids))
        elif how == 2:
            unk = self.unknown()
            for i in unk:
                if rng.random() < 0.6:
                    self.g.set_lower_bound(float(rng.integers(-99, 100)), games.coalition(i))
                if rng.random() < 0.6:
                    self.g.set_upper_bound(float(rng.integers(-99, 100)), games.coalition(i))
        else:  # "looks already computed": huge lower, tiny upper
            unk = self.unknown()
            for i in unk:
                self.g.set_lower_bound(1e6, games.coalition(i))
                self.g.set_upper_bound(-1e6, games.coalition(i))
        self.dirty = True

    def compute(self) -> None:
        self.sim.op("compute", self.tag, mutating=False)
        self.g.compute_bounds()
        self.dirty = False
        self.torn = False

    def torn_compute(self) -> bool:
        """A recompute cancelled half-way (simulated KeyboardInterrupt)."""
        sim = self.sim
        clone = pickle.loads(pickle.dumps(self.g))
        length = seams.count_lines(clone.compute_bounds)
        if length < 2:
            return False
        k = 1 + sim.choose(length, "tear-at")
        fired = seams.run_torn(self.g.compute_bounds, k)
        if fired:
            sim.fault("torn_compute", self.tag, k, length)
            self.dirty = True
            self.torn = True
        return fired

    def evict(self) -> None:
        n = seams.clear_memos()
        self.sim.fault("memo_evict", n)


def class_for(comp_name: str) -> str:
    return "SAM" if comp_name.startswith("sam_apx") else "SA"


def draw_op(sim: Sim, h: GameHarness, truthful: bool, allow_break_minimal: bool) -> tuple:
    """Draw one operation (kind, args) for the knowledge state of `h` without applying it."""
    kinds: list[tuple[str, int]] = [("compute", 3)]
    unk = [i for i in h.explorable if i not in h.kv]
    kn = h.known_nonminimal()
    if unk and h.has_minimal():
        kinds.append(("reveal", 5))
    if kn:
        kinds.append(("unreveal", 3))
    kinds.append(("bulk_reset", 1))
    if unk:
        kinds.append(("bulk_set", 1))
    if not truthful:
        kinds.append(("set", 2))
        if kn:
            kinds.append(("unset", 1))
    if not h.has_minimal():
        kinds = [("bulk_reset", 2), ("restore_minimal", 3)]
    kind = sim.pick_weighted(kinds, "op")
    if kind == "compute":
        return ("compute",)
    if kind == "reveal":
        return ("reveal", sim.pick(unk, "reveal-which"))
    if kind == "unreveal":
        return ("unreveal", sim.pick(kn, "unreveal-which"))
    if kind == "unset":
        return ("unset", sim.pick(kn, "unset-which"))
    if kind == "set":
        i = sim.pick(list(range(1, 2 ** h.n)), "set-which")
        v = float(sim.choose(41, "set-value") - 20)
        if sim.flip(1, 3, "set-frac"):
            v += sim.choose(16, "set-frac-v") / 16.0
        return ("set", i, v)
    if kind == "bulk_set":
        ids = sim.subset(unk, "bulk_set-ids", 1, 3) or [unk[0]]
        return ("bulk_set", ids)
    if kind == "restore_minimal":
        return ("bulk_set", [i for i in h.minimal if i not in h.kv])
    extra = sim.subset(h.explorable, "reset-extra", 1, 3)
    if allow_break_minimal and sim.flip(1, 4, "reset-break"):
        ids = sorted(set(sim.subset(h.minimal, "reset-min", 2, 3)) | set(extra)) or [0]
        return ("bulk_reset", ids)
    return ("bulk_reset", sorted(set(h.minimal) | set(extra)))


def apply_op(h: GameHarness, op: tuple) -> None:
    kind = op[0]
    if kind == "compute":
        if h.has_minimal():
            h.compute()
    elif kind == "reveal":
        h.reveal(op[1])
    elif kind == "unreveal":
        h.unreveal(op[1])
    elif kind == "unset":
        h.unset(op[1])
    elif kind == "set":
        h.set(op[1], op[2])
    elif kind == "bulk_set":
        h.bulk_set(op[1], [float(h.values[i]) for i in op[1]])
    elif kind == "bulk_reset":
        h.bulk_reset(op[1])


def inject_fault(sim: Sim, h: GameHarness) -> str:
    f = sim.pick(["torn", "scribble", "evict"], "fault-kind")
    if f == "torn":
        h.torn_compute()
    elif f == "scribble":
        h.scribble()
        sim.fault("scribbled_bounds")
    else:
        h.evict()
    return f


def random_history_step(sim: Sim, h: GameHarness, truthful: bool, allow_break_minimal: bool,
                        fault_rate: tuple[int, int] = (1, 8)) -> str:
    """Perform one tape-chosen operation on `h`; returns its kind."""
    op = draw_op(sim, h, truthful, allow_break_minimal)
    if op[0] == "compute" and h.has_minimal() and sim.flip(*fault_rate, "fault?"):
        inject_fault(sim, h)
    apply_op(h, op)
    return op[0]
