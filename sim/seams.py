"""Seams owned by the simulator: hidden randomness, clock, process-global state,
the interrupt injector (calls cancelled half-way) and escape detection.

Nothing here edits /repo: every seam is a module attribute or a stdlib entry
point that is rebound from outside while a run is active.
"""
from __future__ import annotations

import os
import random
import sys
import threading
from typing import Any, Callable

import numpy as np

from .core import HarnessError, Sim, SimInterrupt

REPO = os.path.realpath(os.environ.get("VERIF_REPO", "/repo"))
PKG = os.path.join(REPO, "incomplete_cooperative") + os.sep


def import_repo() -> None:
    """Make `incomplete_cooperative` importable from the tree under test."""
    if sys.path[0] != REPO:
        sys.path.insert(0, REPO)
    import incomplete_cooperative  # noqa: F401
    f = os.path.realpath(incomplete_cooperative.__file__)
    if not f.startswith(REPO + os.sep):
        raise HarnessError(f"incomplete_cooperative imported from {f}, expected under {REPO}")


# ------------------------------------------------------------------ hidden RNGs
def _hidden_generators() -> list[np.random.Generator]:
    """Module-level and def-time default Generators of the generators module."""
    gens = sys.modules.get("incomplete_cooperative.generators")
    found: list[np.random.Generator] = []
    if gens is None:
        return found
    seen: set[int] = set()

    def add(g: Any) -> None:
        if isinstance(g, np.random.Generator) and id(g) not in seen:
            seen.add(id(g))
            found.append(g)

    for name in sorted(vars(gens)):
        obj = getattr(gens, name)
        add(obj)
        if callable(obj) and getattr(obj, "__module__", None) == gens.__name__:
            for d in (getattr(obj, "__defaults__", None) or ()):
                add(d)
            for _, d in sorted((getattr(obj, "__kwdefaults__", None) or {}).items()):
                add(d)
    return found


def set_entropy(seed: int) -> None:
    """Set every hidden stream of the process from one integer."""
    ss = np.random.SeedSequence(seed)
    kids = ss.generate_state(4)
    np.random.seed(int(kids[0]))
    random.seed(int(kids[1]))
    for i, g in enumerate(_hidden_generators()):
        try:
            g.bit_generator.state = np.random.PCG64(int(kids[2]) + i).state
        except Exception:  # a different bit generator type: re-seed through its class
            g.bit_generator.state = type(g.bit_generator)(int(kids[2]) + i).state


_MEMO_CLEARERS: dict[str, Any] = {"modules": -1, "fns": []}


def clear_memos() -> int:
    """Evict every functools cache of the package (always legal)."""
    names = [n for n in sys.modules if n.startswith("incomplete_cooperative")]
    if len(names) != _MEMO_CLEARERS["modules"]:
        fns = []
        seen: set[int] = set()
        for name in names:
            mod = sys.modules.get(name)
            if mod is None:
                continue
            for attr in list(vars(mod).values()):
                cc = getattr(attr, "cache_clear", None)
                if callable(cc) and id(attr) not in seen:
                    seen.add(id(attr))
                    fns.append(cc)
                if isinstance(attr, type) and getattr(attr, "__module__", None) == name:
                    for meth in list(vars(attr).values()):
                        cc = getattr(getattr(meth, "__func__", meth), "cache_clear", None)
                        if callable(cc) and id(meth) not in seen:
                            seen.add(id(meth))
                            fns.append(cc)
        _MEMO_CLEARERS["modules"], _MEMO_CLEARERS["fns"] = len(names), fns
    for cc in _MEMO_CLEARERS["fns"]:
        cc()
    return len(_MEMO_CLEARERS["fns"])


_ESC = {"n": 0}
_saved: dict[str, Any] = {}
_entropy_counter = {"n": 0}


def _sim_randbits(k: int) -> int:
    _entropy_counter["n"] += 1
    return random.Random(0xE17 + _entropy_counter["n"] + _entropy_counter.get("base", 0)).getrandbits(k)


def begin_run(sim: Sim) -> None:
    """Bring process-global state to a tape-defined starting point."""
    import_repo()
    import incomplete_cooperative.bounds  # noqa: F401
    clear_memos()
    sim.probes["process_state_repaired_before_run"] += 1 if restore_pristine() else 0
    base = sim.choose(2 ** 32, "entropy")
    set_entropy(base)
    _entropy_counter["n"] = 0
    _entropy_counter["base"] = base
    import numpy.random.bit_generator as bg
    _saved["randbits"] = getattr(bg, "randbits", None)
    if _saved["randbits"] is not None:
        bg.randbits = _sim_randbits
    # escape detection
    _ESC["n"] = 0
    _saved["fork"] = os.fork
    _saved["thread_start"] = threading.Thread.start

    def fork_counted():
        _ESC["n"] += 1
        return _saved["fork"]()

    def start_counted(self, *a, **k):
        _ESC["n"] += 1
        return _saved["thread_start"](self, *a, **k)

    os.fork = fork_counted
    threading.Thread.start = start_counted


def end_run(sim: Sim) -> None:
    import numpy.random.bit_generator as bg
    if _saved.get("randbits") is not None:
        bg.randbits = _saved["randbits"]
    if "fork" in _saved:
        os.fork = _saved["fork"]
        threading.Thread.start = _saved["thread_start"]
    sim.escapes = _ESC["n"]
    if sys.gettrace() is not None:
        sys.settrace(None)
    from . import simfs, simpool
    simfs.cleanup_all()
    simpool.uninstall()


class allow_escape:
    """Temporarily switch escape counting off (real-pool calibration)."""

    def __enter__(self):
        self._f, self._t = os.fork, threading.Thread.start
        os.fork, threading.Thread.start = _saved["fork"], _saved["thread_start"]

    def __exit__(self, *a):
        os.fork, threading.Thread.start = self._f, self._t
        return False


def entropy_jump(sim: Sim) -> None:
    """Fault: every hidden stream jumps to a new tape-chosen state."""
    set_entropy(sim.choose(2 ** 32, "entropy-jump"))
    sim.fault("entropy_jump")


# -------------------------------------------------------------- interrupt injector
class _Tracer:
    def __init__(self, stop_at: int | None) -> None:
        self.count = 0
        self.stop_at = stop_at
        self.fired = False

    def global_trace(self, frame, event, arg):
        if frame.f_code.co_filename.startswith(PKG):
            return self.local_trace
        return None

    def local_trace(self, frame, event, arg):
        if event == "line":
            self.count += 1
            if self.stop_at is not None and self.count == self.stop_at and not self.fired:
                self.fired = True
                raise SimInterrupt()
        return self.local_trace


def count_lines(fn: Callable[[], Any]) -> int:
    """Number of line events in package frames while fn() runs to completion."""
    t = _Tracer(None)
    old = sys.gettrace()
    sys.settrace(t.global_trace)
    try:
        fn()
    finally:
        sys.settrace(old)
    return t.count


def run_torn(fn: Callable[[], Any], k: int) -> bool:
    """Run fn() and raise a simulated KeyboardInterrupt at its k-th package line.

    Returns True if the interrupt fired (and propagated out of fn), False if fn
    completed first.
    """
    t = _Tracer(k)
    old = sys.gettrace()
    sys.settrace(t.global_trace)
    try:
        fn()
    except SimInterrupt:
        return True
    finally:
        sys.settrace(old)
    return t.fired  # fired but swallowed by the code under test still counts as delivered


# ------------------------------------------------------ pristine process state per run
# A run must start from the state a fresh process would have.  functools caches are evicted
# (clear_memos); module-level and class-level mutable containers, lazily created globals and
# scalars of the package are recorded after import and put back before every run, so that
# process-global state introduced by a change under test cannot leak from one simulated run
# into the next (which would break replay in a fresh interpreter).
import types as _types  # noqa: E402

_PRISTINE: dict[str, dict] = {}
_CONTAINERS = (dict, list, set)


def _holders(mod):
    """(owner object, name space description) pairs whose attributes are tracked."""
    yield mod, "module"
    for k, v in list(vars(mod).items()):
        if isinstance(v, type) and getattr(v, "__module__", None) == mod.__name__:
            yield v, "class"
        elif isinstance(v, _types.FunctionType) and getattr(v, "__module__", None) == mod.__name__ and v.__dict__:
            yield v, "function"


def _snapshot_owner(owner) -> dict:
    snap = {}
    for k, v in list(vars(owner).items()):
        if k.startswith("__") and k.endswith("__"):
            continue
        if isinstance(v, _CONTAINERS):
            snap[k] = ("container", v, type(v)(v))
        elif isinstance(v, np.ndarray):
            snap[k] = ("array", v, v.copy())
        elif isinstance(v, (int, float, str, bool, bytes, complex, tuple, frozenset, type(None))):
            snap[k] = ("scalar", v, None)
        else:
            snap[k] = ("other", v, None)
    return snap


def record_pristine() -> None:
    for name, mod in sorted(sys.modules.items()):
        if mod is None or not (name == "incomplete_cooperative" or name.startswith("incomplete_cooperative.")):
            continue
        if ".tests" in name or name in _PRISTINE:
            continue
        owners = []
        for owner, _ in _holders(mod):
            snap = _snapshot_owner(owner)
            tracked = {k: v for k, v in snap.items() if v[0] != "other"}
            owners.append((owner, snap, tracked, len(vars(owner))))
        _PRISTINE[name] = {"owners": [(o, s_) for o, s_, _, _ in owners], "fast": owners}


def _safe_eq(a, b) -> bool:
    try:
        return bool(a == b)
    except Exception:
        return False


def _same(obj, saved) -> bool:
    try:
        return len(obj) == len(saved) and bool(obj == saved)
    except Exception:
        return False


def restore_pristine() -> int:
    """Put recorded package state back; returns the number of attributes that had to be repaired."""
    record_pristine()
    repaired = 0
    for name, rec in _PRISTINE.items():
        for owner, snap, tracked, n_attrs in rec["fast"]:
            cur = vars(owner)
            if len(cur) != n_attrs:
                for k in [k for k in list(cur) if k not in snap and not (k.startswith("__") and k.endswith("__"))]:
                    v = cur[k]
                    if isinstance(v, (_types.ModuleType, _types.FunctionType, type)) or callable(v):
                        continue
                    try:
                        delattr(owner, k)  # a lazily created global / class attribute holding data
                        repaired += 1
                    except Exception:
                        pass
            for k, (kind, obj, saved) in tracked.items():
                now = cur.get(k, None)
                if kind == "container":
                    if now is not obj:
                        setattr(owner, k, obj)
                        repaired += 1
                    if not _same(obj, saved):
                        obj.clear()
                        (obj.update if isinstance(obj, (dict, set)) else obj.extend)(saved)
                        repaired += 1
                elif kind == "array":
                    if now is not obj:
                        setattr(owner, k, obj)
                        repaired += 1
                    if obj.shape != saved.shape or not np.array_equal(obj, saved, equal_nan=True):
                        try:
                            obj[...] = saved
                        except Exception:
                            setattr(owner, k, saved.copy())
                        repaired += 1
                elif now is not obj and not (type(now) is type(obj) and _safe_eq(now, obj)):
                    setattr(owner, k, obj)
                    repaired += 1
    return repaired


# ------------------------------------------------- several simulated processes, one file system
import copy as _copy  # noqa: E402


def _deep_or_shallow(v):
    try:
        return _copy.deepcopy(v)
    except Exception:
        return type(v)(v)


def capture_process_state() -> dict:
    """The package's process-global data state (what a separate OS process would own privately)."""
    record_pristine()
    state: dict = {}
    for name, rec in _PRISTINE.items():
        for idx, (owner, snap) in enumerate(rec["owners"]):
            cur = vars(owner)
            entry: dict = {}
            for k, v in list(cur.items()):
                if k.startswith("__") and k.endswith("__"):
                    continue
                if k in snap:
                    kind, obj, saved = snap[k]
                    if kind == "container":
                        # caches start empty: copy them deeply; registries keep their (shared, immutable) members
                        entry[k] = ("container", _deep_or_shallow(v) if len(saved) == 0 else type(v)(v))
                    elif kind == "array":
                        entry[k] = ("array", np.array(v, copy=True))
                    elif kind == "scalar":
                        entry[k] = ("scalar", v)
                elif not (isinstance(v, (_types.ModuleType, _types.FunctionType, type)) or callable(v)):
                    try:
                        entry[k] = ("new", _copy.deepcopy(v))
                    except Exception:
                        entry[k] = ("new", v)
            state[(name, idx)] = entry
    return state


def copy_process_state(state: dict | None) -> dict | None:
    """A private copy of a captured state (what a forked child owns)."""
    if state is None:
        return None
    out: dict = {}
    for key, entry in state.items():
        e2 = {}
        for k, (kind, val) in entry.items():
            if kind == "array":
                e2[k] = (kind, val.copy())
            elif kind == "container":
                try:
                    e2[k] = (kind, _deep_or_shallow(val) if _is_cache_like(key, k) else type(val)(val))
                except Exception:
                    e2[k] = (kind, type(val)(val))
            elif kind in ("scalar", "new") and not isinstance(val, (int, float, str, bool, bytes, complex, tuple, frozenset, type(None))):
                try:
                    e2[k] = (kind, _copy.deepcopy(val))
                except Exception:
                    e2[k] = (kind, val)
            else:
                e2[k] = (kind, val)
        out[key] = e2
    return out


def _is_cache_like(key: tuple, attr: str) -> bool:
    name, idx = key
    rec = _PRISTINE.get(name)
    if rec is None:
        return False
    snap = rec["owners"][idx][1]
    return attr in snap and snap[attr][0] == "container" and len(snap[attr][2]) == 0


def apply_process_state(state: dict | None) -> None:
    """Make the given simulated process current (None = a freshly started process)."""
    restore_pristine()
    clear_memos()
    if state is None:
        return
    for name, rec in _PRISTINE.items():
        for idx, (owner, snap) in enumerate(rec["owners"]):
            for k, (kind, val) in state.get((name, idx), {}).items():
                if kind == "container" and k in snap:
                    obj = snap[k][1]
                    obj.clear()
                    (obj.update if isinstance(obj, (dict, set)) else obj.extend)(_deep_or_shallow(val) if len(snap[k][2]) == 0 else val)
                elif kind == "array" and k in snap:
                    try:
                        snap[k][1][...] = val
                    except Exception:
                        setattr(owner, k, val.copy())
                elif kind in ("scalar", "new"):
                    setattr(owner, k, _copy.deepcopy(val) if kind == "new" else val)


class SimProcesses:
    """Several simulated OS processes sharing one (simulated) file system.

    Exactly one is current; switching saves the current one's package state and installs the other's.
    functools caches cannot be saved: they are evicted on every switch (always legal).
    """

    def __init__(self, sim: Sim) -> None:
        self.sim = sim
        self.current = 0
        self.states: dict[int, dict | None] = {}

    def switch(self, pid: int) -> None:
        if pid == self.current:
            return
        self.states[self.current] = capture_process_state()
        apply_process_state(self.states.get(pid))
        self.sim.event("process-switch", self.current, pid)
        self.sim.faults["save_issued_by_another_process"] += 1
        self.current = pid

    def restart(self, pid: int | None = None) -> None:
        """The (current) process ends and a new one starts: only the file system survives."""
        pid = self.current if pid is None else pid
        self.states.pop(pid, None)
        if pid == self.current:
            apply_process_state(None)
        self.sim.event("process-restart", pid)
