"""Seams owned by the simulator: hidden randomness, clock, process-global state,
the interrupt injector (calls cancelled half-way) and escape detection.

Nothing here edits /repo: every seam is a module attribute or a stdlib entry
point that is rebound from outside while a run is active.
"""
from __future__ import annotations

import os
import random
import sys
import threading
from typing import Any, Callable

import numpy as np

from .core import HarnessError, Sim, SimInterrupt

REPO = os.path.realpath(os.environ.get("VERIF_REPO", "/repo"))
PKG = os.path.join(REPO, "incomplete_cooperative") + os.sep


def import_repo() -> None:
    """Make `incomplete_cooperative` importable from the tree under test."""
    if sys.path[0] != REPO:
        sys.path.insert(0, REPO)
    import incomplete_cooperative  # noqa: F401
    f = os.path.realpath(incomplete_cooperative.__file__)
    if not f.startswith(REPO + os.sep):
        raise HarnessError(f"incomplete_cooperative imported from {f}, expected under {REPO}")


# ------------------------------------------------------------------ hidden RNGs
def _hidden_generators() -> list[np.random.Generator]:
    """Module-level and def-time default Generators of the generators module."""
    gens = sys.modules.get("incomplete_cooperative.generators")
    found: list[np.random.Generator] = []
    if gens is None:
        return found
    seen: set[int] = set()

    def add(g: Any) -> None:
        if isinstance(g, np.random.Generator) and id(g) not in seen:
            seen.add(id(g))
            found.append(g)

    for name in sorted(vars(gens)):
        obj = getattr(gens, name)
        add(obj)
        if callable(obj) and getattr(obj, "__module__", None) == gens.__name__:
            for d in (getattr(obj, "__defaults__", None) or ()):
                add(d)
            for _, d in sorted((getattr(obj, "__kwdefaults__", None) or {}).items()):
                add(d)
    return found


def set_entropy(seed: int) -> None:
    """Set every hidden stream of the process from one integer."""
    ss = np.random.SeedSequence(seed)
    kids = ss.generate_state(4)
    np.random.seed(int(kids[0]))
    random.seed(int(kids[1]))
    for i, g in enumerate(_hidden_generators()):
        try:
            g.bit_generator.state = np.random.PCG64(int(kids[2]) + i).state
        except Exception:  # a different bit generator type: re-seed through its class
            g.bit_generator.state = type(g.bit_generator)(int(kids[2]) + i).state


def clear_memos() -> int:
    """Evict every functools cache of the package (always legal)."""
    n = 0
    for name, mod in list(sys.modules.items()):
        if mod is None or not name.startswith("incomplete_cooperative"):
            continue
        for attr in list(vars(mod).values()):
            cc = getattr(attr, "cache_clear", None)
            if callable(cc):
                cc()
                n += 1
    return n


_ESC = {"n": 0}
_saved: dict[str, Any] = {}
_entropy_counter = {"n": 0}


def _sim_randbits(k: int) -> int:
    _entropy_counter["n"] += 1
    return random.Random(0xE17 + _entropy_counter["n"] + _entropy_counter.get("base", 0)).getrandbits(k)


def begin_run(sim: Sim) -> None:
    """Bring process-global state to a tape-defined starting point."""
    import_repo()
    import incomplete_cooperative.bounds  # noqa: F401
    clear_memos()
    sim.probes["process_state_repaired_before_run"] += 1 if restore_pristine() else 0
    base = sim.choose(2 ** 32, "entropy")
    set_entropy(base)
    _entropy_counter["n"] = 0
    _entropy_counter["base"] = base
    import numpy.random.bit_generator as bg
    _saved["randbits"] = getattr(bg, "randbits", None)
    if _saved["randbits"] is not None:
        bg.randbits = _sim_randbits
    # escape detection
    _ESC["n"] = 0
    _saved["fork"] = os.fork
    _saved["thread_start"] = threading.Thread.start

    def fork_counted():
        _ESC["n"] += 1
        return _saved["fork"]()

    def start_counted(self, *a, **k):
        _ESC["n"] += 1
        return _saved["thread_start"](self, *a, **k)

    os.fork = fork_counted
    threading.Thread.start = start_counted


def end_run(sim: Sim) -> None:
    import numpy.random.bit_generator as bg
    if _saved.get("randbits") is not None:
        bg.randbits = _saved["randbits"]
    if "fork" in _saved:
        os.fork = _saved["fork"]
        threading.Thread.start = _saved["thread_start"]
    sim.escapes = _ESC["n"]
    if sys.gettrace() is not None:
        sys.settrace(None)


class allow_escape:
    """Temporarily switch escape counting off (real-pool calibration)."""

    def __enter__(self):
        self._f, self._t = os.fork, threading.Thread.start
        os.fork, threading.Thread.start = _saved["fork"], _saved["thread_start"]

    def __exit__(self, *a):
        os.fork, threading.Thread.start = self._f, self._t
        return False


def entropy_jump(sim: Sim) -> None:
    """Fault: every hidden stream jumps to a new tape-chosen state."""
    set_entropy(sim.choose(2 ** 32, "entropy-jump"))
    sim.fault("entropy_jump")


# -------------------------------------------------------------- interrupt injector
class _Tracer:
    def __init__(self, stop_at: int | None) -> None:
        self.count = 0
        self.stop_at = stop_at
        self.fired = False

    def global_trace(self, frame, event, arg):
        if frame.f_code.co_filename.startswith(PKG):
            return self.local_trace
        return None

    def local_trace(self, frame, event, arg):
        if event == "line":
            self.count += 1
            if self.stop_at is not None and self.count == self.stop_at and not self.fired:
                self.fired = True
                raise SimInterrupt()
        return self.local_trace


def count_lines(fn: Callable[[], Any]) -> int:
    """Number of line events in package frames while fn() runs to completion."""
    t = _Tracer(None)
    old = sys.gettrace()
    sys.settrace(t.global_trace)
    try:
        fn()
    finally:
        sys.settrace(old)
    return t.count


def run_torn(fn: Callable[[], Any], k: int) -> bool:
    """Run fn() and raise a simulated KeyboardInterrupt at its k-th package line.

    Returns True if the interrupt fired (and propagated out of fn), False if fn
    completed first.
    """
    t = _Tracer(k)
    old = sys.gettrace()
    sys.settrace(t.global_trace)
    try:
        fn()
    except SimInterrupt:
        return True
    finally:
        sys.settrace(old)
    return t.fired  # fired but swallowed by the code under test still counts as delivered


# ------------------------------------------------------ pristine process state per run
# A run must start from the state a fresh process would have.  functools caches are evicted
# (clear_memos); module-level and class-level mutable containers, lazily created globals and
# scalars of the package are recorded after import and put back before every run, so that
# process-global state introduced by a change under test cannot leak from one simulated run
# into the next (which would break replay in a fresh interpreter).
import types as _types  # noqa: E402

_PRISTINE: dict[str, dict] = {}
_CONTAINERS = (dict, list, set)


def _holders(mod):
    """(owner object, name space description) pairs whose attributes are tracked."""
    yield mod, "module"
    for k, v in list(vars(mod).items()):
        if isinstance(v, type) and getattr(v, "__module__", None) == mod.__name__:
            yield v, "class"
        elif isinstance(v, _types.FunctionType) and getattr(v, "__module__", None) == mod.__name__ and v.__dict__:
            yield v, "function"


def _snapshot_owner(owner) -> dict:
    snap = {}
    for k, v in list(vars(owner).items()):
        if k.startswith("__") and k.endswith("__"):
            continue
        if isinstance(v, _CONTAINERS):
            snap[k] = ("container", v, type(v)(v))
        elif isinstance(v, np.ndarray):
            snap[k] = ("array", v, v.copy())
        elif isinstance(v, (int, float, str, bool, bytes, complex, tuple, frozenset, type(None))):
            snap[k] = ("scalar", v, None)
        else:
            snap[k] = ("other", v, None)
    return snap


def record_pristine() -> None:
    for name, mod in sorted(sys.modules.items()):
        if mod is None or not (name == "incomplete_cooperative" or name.startswith("incomplete_cooperative.")):
            continue
        if ".tests" in name or name in _PRISTINE:
            continue
        _PRISTINE[name] = {"owners": [(owner, _snapshot_owner(owner)) for owner, _ in _holders(mod)]}


def restore_pristine() -> int:
    """Put recorded package state back; returns the number of attributes that had to be repaired."""
    record_pristine()
    repaired = 0
    for name, rec in _PRISTINE.items():
        for owner, snap in rec["owners"]:
            cur = vars(owner)
            for k in [k for k in list(cur) if k not in snap and not (k.startswith("__") and k.endswith("__"))]:
                v = cur[k]
                if isinstance(v, (_types.ModuleType, _types.FunctionType, type)) or callable(v):
                    continue
                try:
                    delattr(owner, k)  # a lazily created global / class attribute holding data
                    repaired += 1
                except Exception:
                    pass
            for k, (kind, obj, saved) in snap.items():
                now = cur.get(k, None)
                if kind == "container":
                    if now is not obj:
                        setattr(owner, k, obj)
                        repaired += 1
                    same = len(obj) == len(saved) and (list(obj.items()) == list(saved.items()) if isinstance(obj, dict)
                                                        else (obj == saved))
                    if not same:
                        obj.clear()
                        (obj.update if isinstance(obj, (dict, set)) else obj.extend)(saved)
                        repaired += 1
                elif kind == "array":
                    if now is not obj:
                        setattr(owner, k, obj)
                        repaired += 1
                    if obj.shape != saved.shape or not np.array_equal(obj, saved, equal_nan=True):
                        try:
                            obj[...] = saved
                        except Exception:
                            setattr(owner, k, saved.copy())
                        repaired += 1
                elif kind == "scalar":
                    if now is not obj and not (now == obj and type(now) is type(obj)):
                        setattr(owner, k, obj)
                        repaired += 1
    return repaired
