"""Pool machine (PM) helpers shared by C11, C12 and C13(ii): simulator-owned side
channel, environment factories with private randomness, schedule sweeps."""
from __future__ import annotations

from typing import Any, Callable

import numpy as np

from . import em, games, simpool
from .core import Sim

# Simulator-owned side channel: not part of any process image, survives image switches.
CHANNEL: list[tuple[int, np.ndarray]] = []


def record_reset(env: Any) -> None:
    """after_reset callback (module-level, pickles by reference): observe the hidden game."""
    inner = getattr(env, "icg_gym", env)
    CHANNEL.append((int(getattr(env, "sim_rep", -1)), games.tabulate(inner.full_game)))


class PrivateEnvFactory:
    """Environment source A: every environment owns a private, pre-seeded hidden-game source."""

    def __init__(self, n: int, comp_name: str, gap: Callable, budget: int | None, base_seed: int,
                 key: str | None = None, values_list: list[np.ndarray] | None = None) -> None:
        self.n, self.comp_name, self.gap, self.budget = n, comp_name, gap, budget
        self.base_seed, self.key, self.values_list = base_seed, key, values_list
        self.count = 0

    def __call__(self):
        j = self.count
        self.count += 1
        if self.key is not None:
            src: Any = em.RegistrySource(self.key, self.n, self.base_seed + 7919 * j)
        else:
            vl = self.values_list
            k = (3 * j) % len(vl)
            src = em.ListSource(vl[k:] + vl[:k], self.n)
        env = em.make_env(self.n, self.comp_name, src, self.gap, self.budget)
        env.sim_rep = j
        return env


class TaggingEnvFactory:
    """Environment source B: the CLI path ModelInstance.get_env, each env tagged with its repetition."""

    def __init__(self, instance: Any) -> None:
        self.instance = instance
        self.count = 0

    def __call__(self):
        env = self.instance.get_env()
        env.sim_rep = self.count
        self.count += 1
        return env


def pool_configs(sim: Sim, k: int, max_p: int = 16) -> list[tuple[int, str]]:
    """k (processes, image model) configurations with p > 1, tape-drawn."""
    out = []
    for _ in range(k):
        p = 2 + sim.choose(max_p - 1, "processes")
        out.append((p, sim.pick(["fork", "fresh"], "image-model")))
    return out
