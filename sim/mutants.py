"""Catalogue of small source mutations used by `./check selftest-mutants` (sensitivity proof).

Each entry: property whose quick check must report a violation, a name, and string edits.
"""

def _m(prop, name, file, old, new):
    return {"property": prop, "name": name, "edits": [{"file": "incomplete_cooperative/" + file, "old": old, "new": new}]}


MUTANTS = [
    # ------------------------------------------------------------------ C20
    _m("C20", "fix-reverted-in-place-write", "run/save.py",
       '    tmp_path = path.with_name(path.name + ".tmp")\n    with tmp_path.open("w") as f:\n        json.dump(data, f, default=json_serializer)\n    tmp_path.replace(path)\n',
       '    with path.open("w") as f:\n        json.dump(data, f, default=json_serializer)\n'),
    _m("C20", "temp-then-bytewise-copy", "run/save.py",
       '    tmp_path.replace(path)\n',
       '    import shutil\n    shutil.copyfile(tmp_path, path)\n    tmp_path.unlink()\n'),
    _m("C20", "replace-before-close", "run/save.py",
       '        json.dump(data, f, default=json_serializer)\n    tmp_path.replace(path)\n',
       '        json.dump(data, f, default=json_serializer)\n        tmp_path.replace(path)\n'),
    # ------------------------------------------------------------------ C08
    _m("C08", "sam-first-sweep-reads-own-stale-lower", "bounds.py",
       "            if i == 0:\n                sub_coalitions = all_coalitions[coal_structure[coalition] == 1]\n            else:",
       "            if False:\n                sub_coalitions = all_coalitions[coal_structure[coalition] == 1]\n            else:"),
    _m("C08", "unstep-forgets-recompute", "icg_gym.py",
       "        self.incomplete_game.unreveal_value(chosen_coalition)\n        self.incomplete_game.compute_bounds()\n",
       "        self.incomplete_game.unreveal_value(chosen_coalition)\n"),
    _m("C08", "set_known_values-no-reinit", "game.py",
       "        self._init_values()\n        return self.set_values(np.fromiter(known_values, Value), coalitions)",
       "        return self.set_values(np.fromiter(known_values, Value), coalitions)"),
    _m("C08", "lower-bound-skipped-when-already-positive", "bounds.py",
       "        lower_bound = np.max(game.get_lower_bounds()[sub_coalitions] + game.get_lower_bounds()[complementary_coalitions])\n        game.set_lower_bound(lower_bound, Coalition(coalition))\n\n    for coalition in unknown_sorted:\n        super_coalitions = all_coalitions[coal_structure[coalition] == 2]\n        known_super_coalitions = super_coalitions[game.are_values_known()[super_coalitions]]\n        complementary_coalitions = coalition ^ known_super_coalitions\n        upper_bound = np.min(game.get_lower_bounds()[known_super_coalitions] - game.get_lower_bounds()[complementary_coalitions])\n        game.set_upper_bound(upper_bound, Coalition(coalition))\n\n\ndef compute_bounds_superadditive_monotone",
       "        lower_bound = np.max(game.get_lower_bounds()[sub_coalitions] + game.get_lower_bounds()[complementary_coalitions])\n        if game.get_lower_bound(Coalition(coalition)) <= 0:\n            game.set_lower_bound(lower_bound, Coalition(coalition))\n\n    for coalition in unknown_sorted:\n        super_coalitions = all_coalitions[coal_structure[coalition] == 2]\n        known_super_coalitions = super_coalitions[game.are_values_known()[super_coalitions]]\n        complementary_coalitions = coalition ^ known_super_coalitions\n        upper_bound = np.min(game.get_lower_bounds()[known_super_coalitions] - game.get_lower_bounds()[complementary_coalitions])\n        game.set_upper_bound(upper_bound, Coalition(coalition))\n\n\ndef compute_bounds_superadditive_monotone"),
]
