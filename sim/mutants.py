"""Catalogue of small source mutations used by `./check selftest-mutants` (sensitivity proof).

Each entry: property whose quick check must report a violation, a name, and string edits.
"""

def _m(prop, name, file, old, new):
    return {"property": prop, "name": name, "edits": [{"file": "incomplete_cooperative/" + file, "old": old, "new": new}]}


MUTANTS = [
    # ------------------------------------------------------------------ C20
    _m("C20", "fix-reverted-in-place-write", "run/save.py",
       '    tmp_path = path.with_name(path.name + ".tmp")\n    with tmp_path.open("w") as f:\n        json.dump(data, f, default=json_serializer)\n    tmp_path.replace(path)\n',
       '    with path.open("w") as f:\n        json.dump(data, f, default=json_serializer)\n'),
    _m("C20", "temp-then-bytewise-copy", "run/save.py",
       '    tmp_path.replace(path)\n',
       '    import shutil\n    shutil.copyfile(tmp_path, path)\n    tmp_path.unlink()\n'),
    _m("C20", "replace-before-close", "run/save.py",
       '        json.dump(data, f, default=json_serializer)\n    tmp_path.replace(path)\n',
       '        json.dump(data, f, default=json_serializer)\n        tmp_path.replace(path)\n'),
    # ------------------------------------------------------------------ C08
    _m("C08", "sam-first-sweep-reads-own-stale-lower", "bounds.py",
       "            if i == 0:\n                sub_coalitions = all_coalitions[coal_structure[coalition] == 1]\n            else:",
       "            if False:\n                sub_coalitions = all_coalitions[coal_structure[coalition] == 1]\n            else:"),
    _m("C08", "unstep-forgets-recompute", "icg_gym.py",
       "        self.incomplete_game.unreveal_value(chosen_coalition)\n        self.incomplete_game.compute_bounds()\n",
       "        self.incomplete_game.unreveal_value(chosen_coalition)\n"),
    _m("C08", "set_known_values-no-reinit", "game.py",
       "        self._init_values()\n        return self.set_values(np.fromiter(known_values, Value), coalitions)",
       "        return self.set_values(np.fromiter(known_values, Value), coalitions)"),
    _m("C08", "lower-bound-skipped-when-already-positive", "bounds.py",
       "        lower_bound = np.max(game.get_lower_bounds()[sub_coalitions] + game.get_lower_bounds()[complementary_coalitions])\n        game.set_lower_bound(lower_bound, Coalition(coalition))\n\n    for coalition in unknown_sorted:\n        super_coalitions = all_coalitions[coal_structure[coalition] == 2]\n        known_super_coalitions = super_coalitions[game.are_values_known()[super_coalitions]]\n        complementary_coalitions = coalition ^ known_super_coalitions\n        upper_bound = np.min(game.get_lower_bounds()[known_super_coalitions] - game.get_lower_bounds()[complementary_coalitions])\n        game.set_upper_bound(upper_bound, Coalition(coalition))\n\n\ndef compute_bounds_superadditive_monotone",
       "        lower_bound = np.max(game.get_lower_bounds()[sub_coalitions] + game.get_lower_bounds()[complementary_coalitions])\n        if game.get_lower_bound(Coalition(coalition)) <= 0:\n            game.set_lower_bound(lower_bound, Coalition(coalition))\n\n    for coalition in unknown_sorted:\n        super_coalitions = all_coalitions[coal_structure[coalition] == 2]\n        known_super_coalitions = super_coalitions[game.are_values_known()[super_coalitions]]\n        complementary_coalitions = coalition ^ known_super_coalitions\n        upper_bound = np.min(game.get_lower_bounds()[known_super_coalitions] - game.get_lower_bounds()[complementary_coalitions])\n        game.set_upper_bound(upper_bound, Coalition(coalition))\n\n\ndef compute_bounds_superadditive_monotone"),
    # ------------------------------------------------------------------ C14
    _m("C14", "table-size-fix-reverted", "regret.py",
       "self.meta_id_to_rank = np.zeros(int(self.meta_rank_to_id.max()) + 1, dtype=int)",
       "self.meta_id_to_rank = np.zeros(self.viable_metacoalitions, dtype=int)"),
    _m("C14", "limit-clamp-fix-reverted", "regret.py",
       "self.limit_of_revealed = limit_of_revealed = min(limit_of_revealed, self.number_of_coalitions)",
       "self.limit_of_revealed = limit_of_revealed"),
    _m("C14", "plus-clipping-removed", "regret.py",
       "            self.cumulative_regret *= self.cumulative_regret > 0",
       "            pass"),
    _m("C14", "iteration-not-saved", "regret.py",
       '        ret.iteration = params["iteration"]\n', ''),
    _m("C14", "uniform-fallback-includes-used", "regret.py",
       "            positive_regret[used_coalitions] = 0\n", ""),
    _m("C14", "average-fallback-includes-used", "regret.py",
       "            cumulative_strategy[used_coalitions] = 0\n", ""),
    _m("C14", "strategy-weight-off-by-one", "regret.py",
       "weight = self.iteration if self.plus else 1", "weight = (self.iteration - 1) if self.plus else 1"),
    _m("C14", "regret-saved-as-float16", "regret.py",
       'np.save(path / "regret.npy", self.cumulative_regret)', 'np.save(path / "regret.npy", self.cumulative_regret.astype(np.float16))'),
    # ------------------------------------------------------------------ C10
    _m("C10", "cheerleader-fix-reverted", "generators.py",
       "cheerleader = int(generator.integers(number_of_players))", "cheerleader = generator.integers(number_of_players)"),
    _m("C10", "xs-draws-from-module-generator", "generators.py",
       "singletons = np.array([generator.random() for _ in range(number_of_players)])",
       "singletons = np.array([_gen.random() for _ in range(number_of_players)])"),
    _m("C10", "noisy-weights-from-legacy-global", "generators.py",
       "weights = generator.uniform(high=10, size=(number_of_players,)) if random_weights",
       "weights = np.random.uniform(high=10, size=(number_of_players,)) if random_weights"),
    _m("C10", "cycle-uses-global-permutation", "generators.py",
       "permutation = generator.permutation(number_of_players)", "permutation = np.random.permutation(number_of_players)"),
    _m("C10", "xos-negation-dropped", "generators.py",
       "ig.set_values(-osx_values)", "ig.set_values(osx_values)"),
    _m("C10", "k-budget-positive", "generators.py",
       "game.set_value(-min(k, len(coalition)), coalition)\n    assert is_sam(game)", "game.set_value(min(k, len(coalition)), coalition)"),
    _m("C10", "covg-owner-from-last-owner-state", "generators.py",
       "    set_indices = generator.choice(len(powerset_list), number_of_players)",
       "    set_indices = generator.choice(len(powerset_list), number_of_players)\n    set_indices[0] = (set_indices[0] + _LAST_OWNER) % len(powerset_list)"),
]
