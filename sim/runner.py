"""Batch runner: seeded search over simulated runs on all cores, violation
confirmation in a fresh interpreter, tape shrinking, replay files, evidence."""
from __future__ import annotations

import faulthandler
import importlib
import json
import multiprocessing
import os
import subprocess
import sys
import time
from collections import Counter
from concurrent.futures import FIRST_COMPLETED, ProcessPoolExecutor, wait
from typing import Any, Sequence

from . import seams
from .core import RunResult, derive_seed, execute

VERIF = os.path.dirname(os.path.dirname(os.path.abspath(__file__)))
KNOWN_FINDINGS_FILE = os.path.join(VERIF, "known_findings.json")
PYTHON = sys.executable

MACHINES = {
    "C01": "c01", "C03": "c03", "C07": "c07", "C08": "c08", "C09": "c09", "C10": "c10",
    "C11": "c11", "C12": "c12", "C13": "c13", "C14": "c14", "C16": "c16", "C17": "c17",
    "C19": "c19", "C20": "c20",
}


def load_machine(prop: str):
    mod = importlib.import_module(f"sim.machines.{MACHINES[prop]}")
    return mod


def load_known_findings() -> dict:
    if not os.path.exists(KNOWN_FINDINGS_FILE):
        return {"findings": [], "fixed": []}
    with open(KNOWN_FINDINGS_FILE) as f:
        return json.load(f)


# ----------------------------------------------------------------------- workers
_W: dict[str, Any] = {}


def _worker_batch(prop: str, tier: str, verif_seed: int, indices: Sequence[int], per_run_timeout: int) -> dict:
    mach = _W["machine"]
    kf = _W["known"]
    out = {"digests": [], "ops": Counter(), "faults": Counter(), "probes": Counter(), "states": set(),
           "schedules": set(), "oracle_evals": 0, "events": 0, "runs": 0, "nontrivial": 0,
           "violations": [], "errors": [], "known_seen": Counter(), "samples": [], "sim_time": 0,
           "validated": 0, "crash_points": 0, "escaped_runs": 0, "configs": Counter(), "slowest": (0.0, -1)}
    for idx in indices:
        faulthandler.dump_traceback_later(per_run_timeout, exit=True)
        seed = derive_seed(verif_seed, prop, idx)
        t_run = time.time()
        r = execute(prop, mach.run, seed, None, tier, kf, idx)
        faulthandler.cancel_dump_traceback_later()
        t_run = time.time() - t_run
        if t_run > out["slowest"][0]:
            out["slowest"] = (round(t_run, 2), idx)
        out["runs"] += 1
        out["ops"].update(r.ops)
        out["faults"].update(r.faults)
        out["probes"].update(r.probes)
        out["states"] |= r.states
        out["schedules"] |= r.schedules
        out["oracle_evals"] += r.oracle_evals
        out["events"] += r.events
        out["sim_time"] += r.sim_time or 0
        out["validated"] += r.validated or 0
        out["crash_points"] += r.crash_points or 0
        out["known_seen"].update(r.known_seen)
        if r.escapes:
            out["escaped_runs"] += 1
        if r.nontrivial:
            out["nontrivial"] += 1
            out["digests"].append(int(r.digest[:16], 16))
        if len(out["samples"]) < 1 and r.nontrivial:
            out["samples"].append({"run_index": idx, "seed": seed, "config": r.config, "trace": r.trace[:60]})
        if r.error:
            out["errors"].append({"index": idx, "seed": seed, "error": r.error, "tape": r.tape})
        if r.violation:
            out["violations"].append({"index": idx, "seed": seed, "tape": r.tape, "digest": r.digest,
                                      "violation": r.violation, "trace": r.trace, "config": r.config})
            break
    return out


def _init_worker(prop: str) -> None:
    pass  # machine and known findings are inherited through fork


# ------------------------------------------------------------------ fresh process
def exec_tape_fresh(prop: str, tape: Sequence[int], seed: int, tier: str, timeout: int = 600) -> dict:
    """Execute a tape in a fresh interpreter; returns its plain result."""
    env = dict(os.environ)
    env["PYTHONHASHSEED"] = "0"
    env["PYTHONDONTWRITEBYTECODE"] = "1"
    payload = json.dumps({"prop": prop, "tape": list(tape), "seed": seed, "tier": tier})
    p = subprocess.run([PYTHON, os.path.join(VERIF, "sim", "cli.py"), "--exec-tape"], input=payload,
                       capture_output=True, text=True, timeout=timeout, env=env, cwd=VERIF)
    for line in reversed(p.stdout.splitlines()):
        if line.startswith("RESULT "):
            return json.loads(line[7:])
    return {"error": f"no result (exit {p.returncode}): {p.stderr[-2000:]}"}


def result_to_plain(r: RunResult) -> dict:
    return {"digest": r.digest, "violation": r.violation, "error": r.error, "tape": r.tape,
            "trace": r.trace, "config": r.config, "events": r.events, "known_seen": r.known_seen,
            "ops": r.ops, "faults": r.faults}


# ------------------------------------------------------------------------ shrink
def _same_failure(prop: str, mach: Any, tape: Sequence[int], seed: int, tier: str, kf: list, clause: str):
    r = execute(prop, mach.run, seed, tape, tier, kf)
    if r.violation and r.violation["clause"] == clause:
        return r
    return None


def _shrink_eval(args):
    prop, cand, seed, tier, kf, clause = args
    r = _same_failure(prop, _W["machine"], cand, seed, tier, kf, clause)
    return list(r.tape) if r is not None else None


def shrink(prop: str, mach: Any, tape: list[int], seed: int, tier: str, kf: list, clause: str,
           budget_s: float, workers: int = 8) -> list[int]:
    """Delta-debug the choice tape (drop blocks, zero blocks, lower values); candidates are tried in parallel.

    A candidate is kept iff the same property fails with the same oracle clause; the tape a run actually
    consumed replaces the candidate, so unused tail choices disappear by themselves."""
    t0 = time.time()
    r = _same_failure(prop, mach, list(tape), seed, tier, kf, clause)
    if r is None:
        return list(tape)
    best = list(r.tape)
    _W["machine"] = mach

    def better(used: list[int]) -> bool:
        return len(used) < len(best) or (len(used) == len(best) and sum(used) < sum(best))

    ctx = multiprocessing.get_context("fork")
    with ProcessPoolExecutor(max_workers=workers, mp_context=ctx) as ex:
        def first_success(cands: list[list[int]]):
            """Index and consumed tape of the first candidate (in list order) that still fails, else None."""
            for start in range(0, len(cands), workers * 2):
                if time.time() - t0 > budget_s:
                    return None
                chunk = cands[start:start + workers * 2]
                res = list(ex.map(_shrink_eval, [(prop, c, seed, tier, kf, clause) for c in chunk]))
                for k, used in enumerate(res):
                    if used is not None and better(used):
                        return start + k, used
            return None

        improved = True
        while improved and time.time() - t0 < budget_s:
            improved = False
            size = max(1, len(best) // 2)
            while size >= 1 and time.time() - t0 < budget_s:
                cands = [best[:i] + best[i + size:] for i in range(0, len(best), size)]
                cands = [c for c in cands if c != best]
                hit = first_success(cands)
                if hit is not None:
                    best = hit[1]
                    improved = True
                    size = min(size, max(1, len(best) // 2))
                else:
                    size //= 2
            size = max(1, len(best) // 2)
            while size >= 1 and time.time() - t0 < budget_s:
                cands = [best[:i] + [0] * len(best[i:i + size]) + best[i + size:]
                         for i in range(0, len(best), size) if any(best[i:i + size])]
                hit = first_success(cands)
                if hit is not None:
                    best = hit[1]
                    improved = True
                else:
                    size //= 2
            cands = []
            for i, v in enumerate(best):
                if v > 0:
                    for cv in sorted({0, v // 2, v - 1}):
                        if cv < v:
                            cands.append(best[:i] + [cv] + best[i + 1:])
            while cands and time.time() - t0 < budget_s:
                hit = first_success(cands)
                if hit is None:
                    break
                best = hit[1]
                improved = True
                cands = []
                for i, v in enumerate(best):
                    if v > 0:
                        for cv in sorted({0, v // 2}):
                            if cv < v:
                                cands.append(best[:i] + [cv] + best[i + 1:])
    return best


def _shrink_child(conn, prop, tape, seed, tier, kf, clause, budget_s):
    try:
        mach = load_machine(prop)
        conn.send(shrink(prop, mach, tape, seed, tier, kf, clause, budget_s))
    except BaseException as e:  # pragma: no cover
        conn.send({"error": repr(e)})
    finally:
        conn.close()


def shrink_isolated(prop, tape, seed, tier, kf, clause, budget_s) -> list[int]:
    ctx = multiprocessing.get_context("fork")
    a, b = ctx.Pipe(duplex=False)
    p = ctx.Process(target=_shrink_child, args=(b, prop, tape, seed, tier, kf, clause, budget_s))
    p.start()
    b.close()
    out: Any = tape
    try:
        if a.poll(budget_s + 120):
            out = a.recv()
    except EOFError:
        out = tape
    p.join(10)
    if p.is_alive():
        p.kill()
    if isinstance(out, dict):
        return list(tape)
    return list(out)


# ----------------------------------------------------------------------- evidence
def write_evidence(prop: str, mach: Any, tier: str, verif_seed: int, agg: dict, wall: float,
                   violations: int, extra: dict) -> str:
    path = os.path.join(os.environ.get("VERIF_EVIDENCE_DIR") or os.path.join(VERIF, "evidence"), f"{prop}.json")
    os.makedirs(os.path.dirname(path), exist_ok=True)
    runs = agg["runs"]
    cov = {
        "evaluations": runs,
        "distinct_nontrivial": len(agg["digest_set"]),
        "rule": mach.RULE,
        "samples": agg["samples"][:3],
        "oracle_evaluations": agg["oracle_evals"],
        "runs_per_hour": int(runs / wall * 3600) if wall > 0 else 0,
        "seeds": {"verif_seed": verif_seed, "run_indices": [0, runs - 1] if runs else [],
                  "derivation": "sha256(VERIF_SEED/property/index)[:8]"},
        "sim_events_total": agg["events"],
        "simulated_time_units": agg["sim_time"],
        "ops_by_kind": dict(sorted(agg["ops"].items())),
        "faults_fired_by_kind": dict(sorted(agg["faults"].items())),
        "probes": dict(sorted(agg["probes"].items())),
        "distinct_states": len(agg["states"]),
        "distinct_states_measure": getattr(mach, "STATE_MEASURE", ""),
        "schedules_distinct": len(agg["schedules"]),
        "escaped_runs": agg["escaped_runs"],
        "known_findings_seen": dict(agg["known_seen"]),
        "real_vs_stub": getattr(mach, "REAL_VS_STUB", {}),
        "harness_workers": extra.get("workers"),
        "harness_errors": len(agg["errors"]),
    }
    if agg["validated"]:
        cov["traces_validated_against_impl"] = agg["validated"]
    if agg["crash_points"]:
        cov["crash_points_enumerated"] = agg["crash_points"]
    cov.update(extra.get("coverage", {}))
    ev = {
        "property_id": prop, "tier": tier, "seed": verif_seed, "level": mach.LEVEL,
        "coverage": cov, "assumptions": list(getattr(mach, "ASSUMPTIONS", [])),
        "wall_s": round(wall, 2), "violations": violations,
    }
    tmp = path + ".tmp"
    with open(tmp, "w") as f:
        json.dump(ev, f, indent=1, sort_keys=True, default=str)
    os.replace(tmp, path)
    return path


# -------------------------------------------------------------------------- batch
def run_batch(prop: str, tier: str, verif_seed: int, workers: int | None = None,
              max_runs: int | None = None, wall: float | None = None) -> int:
    seams.import_repo()
    from . import simfs
    simfs.remove_stale()
    mach = load_machine(prop)
    if hasattr(mach, "preload"):
        mach.preload()
    seams.record_pristine()
    known = load_known_findings()
    kf = [k for k in known.get("findings", []) if k.get("property") == prop]
    cfg = dict(mach.TIERS[tier])
    if max_runs is not None:
        cfg["runs"] = max_runs
    if wall is not None:
        cfg["wall"] = wall
    workers = workers or int(os.environ.get("VERIF_WORKERS", "0")) or min(16, os.cpu_count() or 1)
    batch = cfg.get("batch", 8)
    per_run_timeout = cfg.get("run_timeout", 300)
    _W["machine"], _W["known"] = mach, kf

    agg = {"digest_set": set(), "ops": Counter(), "faults": Counter(), "probes": Counter(), "states": set(),
           "schedules": set(), "oracle_evals": 0, "events": 0, "runs": 0, "nontrivial": 0, "errors": [],
           "known_seen": Counter(), "samples": [], "sim_time": 0, "validated": 0, "crash_points": 0,
           "escaped_runs": 0, "slowest": (0.0, -1)}
    violations: list[dict] = []
    t0 = time.time()
    next_index = 0
    total = cfg["runs"]
    print(f"[{prop}] tier={tier} VERIF_SEED={verif_seed} repo={seams.REPO} workers={workers} "
          f"max_runs={total} wall_budget={cfg['wall']}s", flush=True)
    ctx = multiprocessing.get_context("fork")
    broken = False
    with ProcessPoolExecutor(max_workers=workers, mp_context=ctx) as ex:
        pending = set()

        def submit() -> bool:
            nonlocal next_index
            if next_index >= total or time.time() - t0 > cfg["wall"] or violations:
                return False
            idxs = list(range(next_index, min(total, next_index + batch)))
            next_index += len(idxs)
            pending.add(ex.submit(_worker_batch, prop, tier, verif_seed, idxs, per_run_timeout))
            return True

        for _ in range(workers * 2):
            if not submit():
                break
        while pending:
            done, pending_now = wait(pending, timeout=per_run_timeout + 60, return_when=FIRST_COMPLETED)
            if not done:
                broken = True
                break
            pending.clear()
            pending.update(pending_now)
            for fut in done:
                try:
                    o = fut.result()
                except Exception as e:  # worker died
                    agg["errors"].append({"error": f"worker failure: {e!r}"})
                    broken = True
                    continue
                agg["digest_set"].update(o["digests"])
                for k in ("ops", "faults", "probes", "known_seen"):
                    agg[k].update(o[k])
                agg["states"] |= o["states"]
                agg["schedules"] |= o["schedules"]
                for k in ("oracle_evals", "events", "runs", "nontrivial", "sim_time", "validated",
                          "crash_points", "escaped_runs"):
                    agg[k] += o[k]
                if len(agg["samples"]) < 3:
                    agg["samples"].extend(o["samples"])
                agg["errors"].extend(o["errors"])
                violations.extend(o["violations"])
                if tuple(o["slowest"]) > tuple(agg["slowest"]):
                    agg["slowest"] = tuple(o["slowest"])
            if broken:
                break
            while len(pending) < workers * 2 and submit():
                pass
        if broken:
            for f in pending:
                f.cancel()
    wall_s = time.time() - t0

    exit_code = 0
    reported = 0
    if violations:
        violations.sort(key=lambda v: v["index"])
        for v in violations[:4]:  # a run that does not reproduce in a fresh interpreter is a harness matter (exit 2)
            exit_code, reported = report_violation(prop, mach, tier, verif_seed, v, kf, cfg.get("shrink_s", 60))
            if exit_code == 1:
                break
    elif agg["errors"] or broken:
        exit_code = 2

    extra = {"workers": workers, "coverage": {}}
    if hasattr(mach, "extra_coverage"):
        extra["coverage"] = mach.extra_coverage(agg)
    if agg["runs"] == 0 or len(agg["digest_set"]) < 2:
        if exit_code == 0:
            exit_code = 2
            agg["errors"].append({"error": "too few nontrivial runs"})
    path = write_evidence(prop, mach, tier, verif_seed, agg, time.time() - t0, reported, extra)

    for kid, n in sorted(agg["known_seen"].items()):
        entry = next((k for k in kf if k["id"] == kid), {})
        print(f"KNOWN-FINDING: property={prop} {entry.get('what', kid)} [id={kid}, seen {n}x in this run]")
    for e in agg["errors"][:3]:
        print(f"HARNESS-ERROR property={prop}: {str(e.get('error'))[:3000]}", file=sys.stderr)
        if e.get("tape") is not None:
            print(f"  run index={e.get('index')} seed={e.get('seed')}", file=sys.stderr)
    zero_probes = [p for p in getattr(mach, "PROBES", []) if not agg["probes"].get(p)]
    print(f"[{prop}] runs={agg['runs']} nontrivial_distinct={len(agg['digest_set'])} "
          f"oracle_evals={agg['oracle_evals']} states={len(agg['states'])} "
          f"faults={dict(agg['faults'])} wall={wall_s:.1f}s ({int(agg['runs'] / max(wall_s, 1e-9) * 3600)} runs/h) "
          f"slowest_run={agg['slowest'][0]}s@index{agg['slowest'][1]} evidence={path} exit={exit_code}" + (f" ZERO-PROBES={zero_probes}" if zero_probes else ""), flush=True)
    return exit_code


def report_violation(prop: str, mach: Any, tier: str, verif_seed: int, v: dict, kf: list,
                     shrink_s: float) -> tuple[int, int]:
    """Confirm in a fresh interpreter, shrink, write the replay file, print VIOLATION."""
    clause = v["violation"]["clause"]
    fresh = exec_tape_fresh(prop, v["tape"], v["seed"], tier)
    if fresh.get("error") or not fresh.get("violation") or fresh["violation"]["clause"] != clause \
            or fresh.get("digest") != v["digest"]:
        print(f"HARNESS-NONDETERMINISM property={prop} run_index={v['index']} seed={v['seed']} "
              f"clause={clause!r}: fresh interpreter gave {str(fresh.get('violation') or fresh.get('error'))[:500]} "
              f"digest {fresh.get('digest')} vs {v['digest']}", file=sys.stderr)
        return 2, 0
    small = shrink_isolated(prop, v["tape"], v["seed"], tier, kf, clause, shrink_s)
    final = exec_tape_fresh(prop, small, v["seed"], tier)
    if not final.get("violation") or final["violation"]["clause"] != clause:
        small = v["tape"]
        final = fresh
    rdir = os.environ.get("VERIF_REPLAY_DIR") or os.path.join(VERIF, "replays")
    os.makedirs(rdir, exist_ok=True)
    path = os.path.join(rdir, f"{prop}-{v['seed']}-{final['digest'][:8]}.json")
    with open(path, "w") as f:
        json.dump({
            "property": prop, "verif_seed": verif_seed, "run_index": v["index"], "seed": v["seed"], "tier": tier,
            "clause": clause, "detail": final["violation"]["detail"], "digest": final["digest"],
            "tape": small, "original_tape_length": len(v["tape"]), "config": final.get("config"),
            "trace": final.get("trace"), "repo": seams.REPO,
            "replay": f"./check {prop} --replay {path}",
        }, f, indent=1, default=str)
    print(f"VIOLATION property={prop} replay={path}")
    print(f"  clause: {clause}\n  detail: {str(final['violation']['detail'])[:1500]}\n"
          f"  tape: {len(v['tape'])} -> {len(small)} choices; run_index={v['index']} seed={v['seed']}", flush=True)
    return 1, 1


def replay(prop: str, path: str) -> int:
    with open(path) as f:
        rp = json.load(f)
    res = exec_tape_fresh(rp["property"], rp["tape"], rp["seed"], rp.get("tier", "quick"))
    if res.get("violation"):
        same = res["violation"]["clause"] == rp["clause"] and res.get("digest") == rp.get("digest")
        print(f"VIOLATION property={rp['property']} replay={path}")
        print(f"  clause: {res['violation']['clause']}\n  detail: {str(res['violation']['detail'])[:1500]}\n"
              f"  reproduced_exactly={same} digest={res.get('digest')}")
        return 1
    if res.get("error"):
        print(f"HARNESS-ERROR during replay: {res['error'][:2000]}", file=sys.stderr)
        return 2
    print(f"replay of {path}: no violation on this tree (digest {res.get('digest')})")
    return 0
