"""C11 - exhaustive search evaluates each reveal set once, correctly, for any pool; finds the optimum.

The exhaustive search always runs through a worker pool; here it runs under SimPool for
several (worker count, image model, chunk->worker schedule) configurations per seed.
"""
from __future__ import annotations

import itertools
import os

import numpy as np

from .. import em, games, pm, seams, simpool, simthreads
from .. import prelude
from ..core import HarnessError, Sim, SimKill, Violation

LEVEL = "exploration"
RULE = ("Each run draws (n = 3..4, hidden games of class SA/SAM/registry, starting knowledge = minimal + tape-drawn "
        "extras, size limit k, computer, gap function) and calls one of: get_exploitabilities_of_action_sequences, "
        "sample_exploitabilities_of_action_sequences (several hidden games through one reused object), "
        "get_best_exploitability, MetaGame.get_value - each under 2..3 tape-drawn (processes 1..16, fork/fresh, "
        "schedule) configurations of the simulated pool. Non-trivial = values compared with the fresh-object "
        "oracle for at least two configurations; distinct = distinct event-log digests.")
STATE_MEASURE = "distinct (n, starting knowledge, reveal set) triples whose reported value was compared with a fresh object"
REAL_VS_STUB = {"real": ["gameplay.*", "run.best_states.get_best_exploitability", "meta_game.MetaGame", "bounds",
                         "norms", "exploitability", "pickling of every chunk"],
                "stub": ["multiprocessing.Pool -> SimPool (calibrated against the real pool)"],
                "seams": ["chunk->worker scheduler", "process images", "gameplay.time (simulated clock)"]}
ASSUMPTIONS = ["starting knowledge contains the minimal information", "n <= 4 (all subsets up to k)",
               "SimPool models process pools at task granularity; worker death is not injected"]
PROBES = ["search_overlapped_with_another_threads_search", "meta_game_used_after_a_failed_call", "more_than_1000_reveal_sets", "one_game_object_reused_across_searches", "search_retried_after_interrupt", "best_states_on_a_stepped_environment", "chunk_with_2plus_tasks", "worker_ran_2plus_chunks", "more_workers_than_chunks",
          "starting_knowledge_beyond_minimal", "best_states", "meta_game", "sampled_several_games",
          "calibrated_against_real_pool", "n4"]
TIERS = {
    "quick": {"runs": 6000, "wall": 40, "batch": 6, "shrink_s": 40},
    "thorough": {"runs": 1000000, "wall": 1200, "batch": 8, "shrink_s": 150},
}


def preload() -> None:
    import incomplete_cooperative.gameplay  # noqa: F401
    import incomplete_cooperative.meta_game  # noqa: F401
    import incomplete_cooperative.run.best_states  # noqa: F401
    import incomplete_cooperative.run.model  # noqa: F401
    simpool.record_import_scalars()


class SimClock:
    def __init__(self, sim: Sim) -> None:
        self.sim = sim

    def time(self) -> float:
        self.sim.sim_time += 1
        return 1_700_000_000.0 + self.sim.sim_time


def expected_sets(unknown: list[int], k: int) -> list[tuple[int, ...]]:
    return [c for size in range(k + 1) for c in itertools.combinations(unknown, size)]


def check_result(sim: Sim, result, n: int, comp_name: str, gap, K0: list[int], unknown: list[int], k: int,
                 hidden: np.ndarray, ctx: dict, cache: dict) -> list[float]:
    """Clauses (i) and (ii) for one call.  Returns the values in expected-set order."""
    sim.checked()
    got = [(tuple(sorted(c.id for c in seq)), val) for seq, val in result]
    want = expected_sets(unknown, k)
    got_sets = sorted(s for s, _ in got)
    if got_sets != sorted(tuple(sorted(s)) for s in want):
        extra = [s for s in got_sets if got_sets.count(s) > 1][:5]
        sim.fail("C11.enumeration_is_not_every_set_exactly_once",
                 {**ctx, "expected_count": len(want), "got_count": len(got), "repeated": extra})
    comp = games.computer(comp_name)
    by_set = {}
    for s, val in got:
        key = (hidden.tobytes(), s)
        if key not in cache:
            f = games.fresh(n, comp, list(K0) + list(s), hidden)
            cache[key] = gap(f)
        exp = cache[key]
        sim.state(n, tuple(K0), s)
        if np.float64(val).tobytes() != np.float64(exp).tobytes():
            sim.fail("C11.reported_gap_is_not_gap_of_start_knowledge_plus_set",
                     {**ctx, "set": list(s), "expected": float(exp), "got": float(val)})
        by_set[s] = float(val)
    return [by_set[tuple(sorted(s))] for s in want]


def run(sim: Sim) -> None:
    from incomplete_cooperative import gameplay
    from incomplete_cooperative.run.model import GAP_FUNCTIONS
    thorough = sim.tier == "thorough"
    n = 3 if not sim.flip(1, 3, "n4") else 4
    if n == 4:
        sim.probe("n4")
    cls = sim.pick(["SA", "SAM", "ANY"], "class")
    comp_name = sim.pick(games.computers_for("SAM" if cls == "SAM" else "SA", n), "computer")
    gap_name = sim.pick(sorted(GAP_FUNCTIONS), "gap")
    gap = GAP_FUNCTIONS[gap_name]
    explorable = games.explorable_ids(n)
    what = sim.pick_weighted([("sequences", 4), ("sample", 2), ("best_states", 3), ("meta", 2)], "call")
    big = sim.choose(25 if thorough else 90, "big-search") == 1 or bool(os.environ.get("VERIF_FORCE_LARGE"))
    if big:
        # rare: more than a thousand reveal sets (the whole 4-player lattice, or 5 players up to size 3)
        n = sim.pick([4, 5], "big-n")
        what = sim.pick(["sequences", "sample"], "big-call")
        comp_name = sim.pick(["superadditive_cached"] + (["sam_apx_1"] if cls == "SAM" else []), "big-computer")
        gap_name = sim.pick(["l1_norm", "linf_norm", "exploitability"], "big-gap")
        gap = GAP_FUNCTIONS[gap_name]
        explorable = games.explorable_ids(n)
        sim.probe("more_than_1000_reveal_sets")
    extras = sim.subset(explorable, "start-extras", 1, 5) if what in ("sequences", "sample", "best_states") else []
    if len(extras) == len(explorable):
        extras = extras[:-1]
    if extras:
        sim.probe("starting_knowledge_beyond_minimal")
    K0 = games.minimal_ids(n) + extras
    unknown = [e for e in explorable if e not in extras]
    kmax = len(unknown) if n == 3 else (3 if thorough or sim.flip(1, 4, "k3") else 2)
    k = sim.choose(min(kmax, len(unknown)) + 1, "k")
    ngames = 1 + sim.choose(4, "n-games")
    if big:
        extras = []
        K0 = games.minimal_ids(n)
        unknown = list(explorable)
        k = len(unknown) if n == 4 else 3
        ngames = 2
    values = [games.draw_game(sim, n, cls)[0] for _ in range(ngames)]
    ctx = {"n": n, "class": cls, "computer": comp_name, "gap": gap_name, "call": what, "start_extras": extras, "k": k}
    sim.config.update(ctx)
    configs = [(1 + sim.choose(16, "processes"), sim.pick(["fork", "fresh"], "image")) for _ in range(2 + sim.choose(2, "n-configs"))]
    if big:
        configs = [(1 + sim.choose(3, "big-processes"), sim.pick(["fork", "fresh"], "image")) for _ in range(2)]
    prelude.warm_process(sim)
    cache: dict = {}
    saved_time = gameplay.time
    gameplay.time = SimClock(sim)
    try:
        if what == "sequences":
            _sequences(sim, gameplay, n, comp_name, gap, K0, unknown, k, values[0], configs, ctx, cache, thorough)
        elif what == "sample":
            _sample(sim, gameplay, n, comp_name, gap, K0, unknown, k, values, configs, ctx, cache)
        elif what == "best_states":
            _best_states(sim, n, comp_name, gap, cls, unknown, extras, max(k, 1), values, configs, ctx, cache)
        else:
            _meta(sim, gameplay, n, comp_name, gap, explorable, k, values[0], configs, ctx, cache)
    finally:
        gameplay.time = saved_time


def _start_game(n, comp_name, K0, hidden):
    g = games.new_game(n, games.computer(comp_name))
    g.set_known_values([hidden[i] for i in K0], games.coalitions(K0))
    return g


def _sequences(sim, gameplay, n, comp_name, gap, K0, unknown, k, hidden, configs, ctx, cache, thorough) -> None:
    full = games.full_game(hidden, n)
    first = None
    # one caller-owned game object serves every search of the run (the search must leave it as it found it)
    shared = _start_game(n, comp_name, K0, hidden) if sim.flip(2, 3, "reuse-one-game-object") else None
    if shared is not None:
        sim.probe("one_game_object_reused_across_searches")
    for p, image in configs:
        game = shared if shared is not None else _start_game(n, comp_name, K0, hidden)
        if shared is not None and sim.flip(1, 4, "earlier-search-interrupted"):
            # a search on this object was cancelled half-way (Ctrl-C, error in the gap function); the caller retries
            with sim.guard("C11.search_raised"):
                with simpool.installed(sim, image):
                    if seams.run_torn(lambda: list(gameplay.get_exploitabilities_of_action_sequences(
                            game, full, gap, max_size=k, processes=p)), 1 + sim.choose(4000, "tear-at")):
                        sim.fault("search_interrupted", p)
                        sim.probe("search_retried_after_interrupt")
        sim.op("sequences", p, image)
        sim.mutations += 1
        c = {**ctx, "processes": p, "image_model": image, "game_object_reused": shared is not None}
        with sim.guard("C11.search_raised"):
            with simpool.installed(sim, image):
                if n <= 4 and len(unknown) <= 11 and sim.flip(1, 6, "overlapping-search"):
                    # another caller thread runs a search of its own (another game, another gap function) meanwhile
                    v2, _ = games.draw_game(sim, 3, "SA")
                    g2, f2 = _start_game(3, "superadditive", games.minimal_ids(3), v2), games.full_game(v2, 3)
                    gap2 = games.gap_functions()[sim.pick(["l1_norm", "linf_norm"], "other-search-gap")]

                    def other_search():
                        try:
                            list(gameplay.get_exploitabilities_of_action_sequences(g2, f2, gap2, max_size=2, processes=1))
                        except Exception:  # not judged
                            pass
                    res = simthreads.interleave(sim, [lambda: list(gameplay.get_exploitabilities_of_action_sequences(
                        game, full, gap, max_size=k, processes=p)), other_search])[0]
                    sim.probe("search_overlapped_with_another_threads_search")
                else:
                    res = list(gameplay.get_exploitabilities_of_action_sequences(
                        game, full, gap, max_size=k, processes=p))
        vals = check_result(sim, res, n, comp_name, gap, K0, unknown, k, hidden, c, cache)
        order = [tuple(sorted(x.id for x in seq)) for seq, _ in res]
        if first is None:
            first = (vals, order)
        elif first[0] != vals:
            sim.fail("C11.result_depends_on_worker_processes_or_schedule", c)
    if sim.flip(1, 5 if not thorough else 2, "calibrate") and len(expected_sets(unknown, k)) > 1:
        p = 2 + sim.choose(2, "calib-p")
        with sim.guard("C11.search_raised"):
            with simpool.installed(sim, "fork"):
                rs = list(gameplay.get_exploitabilities_of_action_sequences(
                    _start_game(n, comp_name, K0, hidden), full, gap, max_size=k, processes=p))
            with seams.allow_escape():
                rr = list(gameplay.get_exploitabilities_of_action_sequences(
                    _start_game(n, comp_name, K0, hidden), full, gap, max_size=k, processes=p))
        a = [([x.id for x in s], np.float64(v).tobytes()) for s, v in rs]
        b = [([x.id for x in s], np.float64(v).tobytes()) for s, v in rr]
        sim.event("calibration", p, len(b))
        if a != b:
            raise HarnessError(f"SimPool disagrees with the real multiprocessing.Pool at processes={p}: {ctx}")
        sim.validated_against_impl += 1
        sim.probe("calibrated_against_real_pool")


def _sample(sim, gameplay, n, comp_name, gap, K0, unknown, k, values, configs, ctx, cache) -> None:
    samples = len(values)
    if samples > 1:
        sim.probe("sampled_several_games")
    first = None
    for p, image in configs:
        sim.op("sample", p, image, samples)
        sim.mutations += 1
        c = {**ctx, "processes": p, "image_model": image, "samples": samples}
        src = em.ListSource(values, n)
        with sim.guard("C11.search_raised"):
            with simpool.installed(sim, image):
                actions, vals = gameplay.sample_exploitabilities_of_action_sequences(
                    _start_game(n, comp_name, K0, values[-1]), src, gap, samples=samples, max_size=k, processes=p)
        vals = np.array(vals)
        if vals.shape != (samples, len(actions)):
            sim.fail("C11.sample_matrix_shape", {**c, "shape": list(vals.shape)})
        for i in range(samples):
            check_result(sim, list(zip(actions, vals[i])), n, comp_name, gap, K0, unknown, k, values[i], {**c, "sample": i}, cache)
        if first is None:
            first = vals.tobytes()
        elif first != vals.tobytes():
            sim.fail("C11.result_depends_on_worker_processes_or_schedule", c)


def _best_states(sim, n, comp_name, gap, cls, explorable, extras, k, values, configs, ctx, cache) -> None:
    """`explorable` = coalitions unknown at the start (explorable minus the extra initially known ones)."""
    from incomplete_cooperative.run.best_states import get_best_exploitability
    sim.probe("best_states")
    samples = len(values)
    first = None
    stepped: list[int] = []
    if len(explorable) > 2 and sim.flip(1, 3, "env-stepped-before-search"):
        idx = sim.shuffled(list(range(len(explorable))), "stepped-actions")[:1 + sim.choose(min(3, len(explorable) - 2), "n-stepped")]
        stepped = sorted(idx)
        sim.probe("best_states_on_a_stepped_environment")
    K0 = games.minimal_ids(n) + list(extras) + [explorable[a] for a in stepped]
    explorable = [e for i, e in enumerate(explorable) if i not in stepped]
    k = min(k, len(explorable))
    comp = games.computer(comp_name)
    for p, image in configs:
        sim.op("best_states", p, image, samples)
        sim.mutations += 1
        c = {**ctx, "processes": p, "image_model": image, "samples": samples, "max_steps": k}
        src = em.ListSource(values, n)
        with sim.guard("C11.search_raised"):
            env = em.make_env(n, comp_name, src, gap, None, initial_extra=extras)
            for a in stepped:  # the environment has been played before the search: its knowledge is the start
                env.step(a)
            drawn_before = src.drawn
            with simpool.installed(sim, image):
                best, best_actions = get_best_exploitability(env, k, samples, gap, processes=p)
        best = np.array(best)
        sampled = [values[(drawn_before + i) % len(values)] for i in range(samples)]
        sim.checked()
        if best.shape != (k + 1, samples) or len(best_actions) != k + 1:
            sim.fail("C11.best_states_shape", {**c, "shape": list(best.shape)})
        mins = []
        for size in range(k + 1):
            cols = {}
            for s in itertools.combinations(explorable, size):
                col = []
                for hv in sampled:
                    key = (hv.tobytes(), tuple(sorted(s)))
                    if key not in cache:
                        cache[key] = gap(games.fresh(n, comp, K0 + list(s), hv))
                    col.append(cache[key])
                cols[tuple(sorted(s))] = np.array(col, dtype=np.float64)
            means = {s: float(np.mean(col)) for s, col in cols.items()}
            mn = min(means.values())
            mins.append(mn)
            rep = tuple(sorted(best_actions[size]))
            tol = 1e-12 * max(1.0, abs(mn))
            if rep not in cols:
                sim.fail("C11.best_states_reports_a_set_of_wrong_size_or_content", {**c, "size": size, "reported": list(rep)})
            if best[size].tobytes() != cols[rep].tobytes():
                sim.fail("C11.best_states_row_is_not_the_sample_column_of_the_reported_set",
                         {**c, "size": size, "reported": list(rep), "row": best[size].tolist(), "column": cols[rep].tolist()})
            if means[rep] > mn + tol:
                better = min(means, key=means.get)
                sim.fail("C11.best_states_reported_set_is_not_a_minimiser_of_the_mean_gap",
                         {**c, "size": size, "reported": list(rep), "reported_mean": means[rep], "best_set": list(better), "best_mean": mn})
        if cls != "ANY":
            scale = max(1.0, max(float(np.max(np.abs(v))) for v in sampled))
            for a, b in zip(mins, mins[1:]):
                if b > a + 1e-9 * scale * 2 ** n:
                    sim.fail("C11.best_states_curve_increases", {**c, "curve": mins})
        if first is None:
            first = (best.tobytes(), [list(x) for x in best_actions])
        elif first != (best.tobytes(), [list(x) for x in best_actions]):
            sim.fail("C11.result_depends_on_worker_processes_or_schedule", c)


class _FlakyGap:
    """The gap function handed to the meta-game; raises once when told to (fault seam)."""

    def __init__(self, fn) -> None:
        self.fn = fn
        self.fail_next: type | None = None

    def __call__(self, *a, **k):
        if self.fail_next is not None:
            exc, self.fail_next = self.fail_next, None
            raise exc("injected: the gap function failed")
        return self.fn(*a, **k)


def _meta(sim, gameplay, n, comp_name, gap, explorable, k, hidden, configs, ctx, cache) -> None:
    from incomplete_cooperative.meta_game import MetaGame
    sim.probe("meta_game")
    K0 = games.minimal_ids(n)
    full = games.full_game(hidden, n)
    p, image = configs[0]
    sim.op("sequences", p, image)
    sim.mutations += 1
    with sim.guard("C11.search_raised"):
        with simpool.installed(sim, image):
            res = list(gameplay.get_exploitabilities_of_action_sequences(
                _start_game(n, comp_name, K0, hidden), full, gap, max_size=k, processes=p))
        check_result(sim, res, n, comp_name, gap, K0, explorable, k, hidden, {**ctx, "processes": p}, cache)
        incomplete = _start_game(n, comp_name, K0, hidden)
        before = games.snapshot(incomplete)
        flaky = _FlakyGap(gap)
        meta = MetaGame(full, incomplete, flaky)
    if [c.id for c in meta.players] != explorable or meta.number_of_players != len(explorable):
        sim.fail("C11.meta_game_players_are_not_the_non_minimal_coalitions", ctx)
    order = sim.shuffled(list(range(len(res))), "meta-order")
    for idx in order[:40]:
        seq, val = res[idx]
        mc = games.coalition(sum(1 << explorable.index(c.id) for c in seq))
        if sim.flip(1, 10, "gap-function-fails"):
            # injected fault: the gap function raises during this call (a transient failure, an interrupt); the call
            # fails, the same meta-game object is used afterwards and must still return the right quantities
            flaky.fail_next = sim.pick([TimeoutError, KeyboardInterrupt, MemoryError], "gap-fault")
            try:
                meta.get_value(mc)
            except BaseException as e:  # noqa: BLE001
                if isinstance(e, (Violation, HarnessError, SimKill)):
                    raise
            flaky.fail_next = None
            sim.fault("gap_function_failed_once")
            sim.probe("meta_game_used_after_a_failed_call")
            if sim.flip(1, 2, "ask-another-set-next"):
                continue
        with sim.guard("C11.meta_game_raised"):
            mv = meta.get_value(mc)
        sim.checked()
        if np.float64(mv).tobytes() != np.float64(val).tobytes():
            sim.fail("C11.meta_game_value_differs_from_search_value",
                     {**ctx, "set": [c.id for c in seq], "meta": float(mv), "search": float(val)})
    if games.snapshot(incomplete) != before:
        sim.fail("C11.meta_game_modified_the_callers_incomplete_game", ctx)
