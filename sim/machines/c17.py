"""C17 - an incomplete game object is a faithful map coalition -> (known?, lower, upper).

Refinement of a dictionary model over multi-handle histories: an original, copies,
negations and copies of negations live in one simulated process and the scheduler
interleaves public value operations among them.
"""
from __future__ import annotations

from typing import Any

import numpy as np

from .. import games
from .. import prelude
from .. import simthreads
from ..core import Sim

LEVEL = "exploration"
RULE = ("Each run holds 1..6 aliased handles (original, copy(), -g, copies of negations) of games with n = 1..5 and "
        "interleaves 10..50 tape-drawn public operations among them (set / unset / reveal / un-reveal also with a "
        "false precondition, bulk set, bulk reset, bulk and scalar bound setters on subsets overlapping the known "
        "ones, copy, negate); after every operation every handle is compared with its dictionary model. "
        "Non-trivial = at least one comparison after a mutation; distinct = distinct event-log digests.")
STATE_MEASURE = "distinct (n, known bitmask of the operated handle, operation kind) triples checked"
REAL_VS_STUB = {"real": ["incomplete_cooperative.game.IncompleteCooperativeGame", "coalitions"], "stub": [],
                "seams": ["scheduler interleaving operations across aliased handles",
                          "line-granular thread interleaver (sim/simthreads.py): bulk operations, copies and negations of two "
                          "different handles overlapped in two caller threads"]}
ASSUMPTIONS = ["the only fault kinds that apply are a call failing half-way on an unusable value and pre-emption of a caller "
               "thread between package lines while another thread operates on a DIFFERENT handle (copies are independent "
               "objects); two threads on the same object are outside the property",
               "bounds of an unknown coalition are only compared after they were written through a bound setter "
               "(their value after unset / reset is not specified by the property)"]
PROBES = ["bulk_ops_on_two_handles_overlapped_in_threads", "call_with_unusable_value", "bulk_setter_fed_live_view_of_another_handle", "bulk_bounds_overlapping_known", "failed_precondition", "op_on_copy", "op_on_negation", "reset_after_bounds",
          "handles_3plus"]
TIERS = {
    "quick": {"runs": 80000, "wall": 40, "batch": 48, "shrink_s": 40},
    "thorough": {"runs": 20000000, "wall": 900, "batch": 64, "shrink_s": 120},
}
WILD = object()


class Handle:
    def __init__(self, g: Any, n: int, kind: str) -> None:
        self.g, self.n, self.kind = g, n, kind
        self.known: dict[int, float] = {0: 0.0}
        self.lo: dict[int, Any] = {}
        self.up: dict[int, Any] = {}

    def clone_model(self, other: "Handle") -> None:
        self.known, self.lo, self.up = dict(other.known), dict(other.lo), dict(other.up)

    def forget_bounds(self, i: int) -> None:
        self.lo[i] = WILD
        self.up[i] = WILD

    def mask(self) -> int:
        return sum(1 << i for i in self.known)


def value(sim: Sim) -> float:
    k = sim.choose(6, "value-kind")
    if k == 0:
        return float(sim.choose(21, "v-int") - 10)
    if k == 1:
        return (sim.choose(129, "v-dy") - 64) / 16.0
    if k == 2:
        return float(sim.np_rng("v-f").normal(0, 100))
    if k == 3:
        return sim.pick([1e300, -1e300, 5e-324, 123456789.0, -0.5], "v-big")
    if k == 4:
        return 0.0
    return float(sim.choose(7, "v-small"))


def table(g: Any) -> bytes:
    k, lo, up = games.arrays(g)
    return k.tobytes() + lo.tobytes() + up.tobytes()


def as_iterable(sim: Sim, items: list):
    """The API takes any Iterable[Coalition]: hand it a list, a tuple, a generator or a map object."""
    kind = sim.choose(4, "iterable-kind")
    if kind == 0:
        return list(items)
    if kind == 1:
        return tuple(items)
    if kind == 2:
        return (x for x in items)
    return map(lambda x: x, items)


def check_handle(sim: Sim, h: Handle, clause_prefix: str = "C17") -> None:
    g, n = h.g, h.n
    N = 2 ** n
    ctx = {"n": n, "handle": h.kind, "known": sorted(h.known)}
    known = np.array(g.are_values_known())
    exp_known = np.array([i in h.known for i in range(N)])
    if known.shape != (N,) or not np.array_equal(known, exp_known):
        sim.fail(f"{clause_prefix}.known_set_differs_from_model",
                 {**ctx, "got": [int(i) for i in np.nonzero(known)[0]]})
    lo = np.array(g.get_lower_bounds(), dtype=np.float64)
    up = np.array(g.get_upper_bounds(), dtype=np.float64)
    kv = np.array(g.get_known_values(), dtype=np.float64)
    for i in range(N):
        c = games.coalition(i)
        if i in h.known:
            v = h.known[i]
            got = [g.get_value(c), g.get_known_value(c), g.get_lower_bound(c), g.get_upper_bound(c), lo[i], up[i], kv[i]]
            iv = g.get_interval(c)
            got += [iv[0], iv[1]]
            if not g.is_value_known(c) or any(not (x == v) for x in got):
                sim.fail(f"{clause_prefix}.known_coalition_value_or_bounds_wrong",
                         {**ctx, "coalition": i, "value": v, "got": [None if x is None else float(x) for x in got]})
        else:
            if g.is_value_known(c):
                sim.fail(f"{clause_prefix}.known_set_differs_from_model", {**ctx, "coalition": i})
            try:
                r = g.get_value(c)
                sim.fail(f"{clause_prefix}.unknown_value_returned_as_value", {**ctx, "coalition": i, "returned": float(r)})
            except ValueError:
                pass
            if g.get_known_value(c) is not None:
                sim.fail(f"{clause_prefix}.unknown_value_returned_as_value", {**ctx, "coalition": i, "via": "get_known_value"})
            if not np.isnan(kv[i]):
                sim.fail(f"{clause_prefix}.unknown_value_returned_as_value", {**ctx, "coalition": i, "via": "get_known_values",
                                                                            "returned": float(kv[i])})
            for name, model, arr, scalar in (("lower", h.lo, lo, g.get_lower_bound(c)), ("upper", h.up, up, g.get_upper_bound(c))):
                want = model.get(i, WILD)
                if want is not WILD and not (arr[i] == want and scalar == want):
                    sim.fail(f"{clause_prefix}.bound_of_unknown_coalition_not_last_written",
                             {**ctx, "coalition": i, "which": name, "written": want, "got": float(arr[i])})
    # subset getters
    ks = sorted(h.known)
    sub = [i for i in ks if sim.flip(1, 2, "getsub")] or ks[:1]
    vals = np.array(g.get_values(as_iterable(sim, games.coalitions(sub))), dtype=np.float64)
    if not np.array_equal(vals, np.array([h.known[i] for i in sub])):
        sim.fail(f"{clause_prefix}.get_values_subset_wrong", {**ctx, "subset": sub, "got": vals.tolist()})
    unk = [i for i in range(N) if i not in h.known]
    if unk:
        bad = sub + [unk[sim.choose(len(unk), "unk-pick")]]
        try:
            g.get_values(as_iterable(sim, games.coalitions(bad)))
            sim.fail(f"{clause_prefix}.unknown_value_returned_as_value", {**ctx, "via": "get_values(subset)", "subset": bad})
        except ValueError:
            pass
        try:
            g.get_values()
            sim.fail(f"{clause_prefix}.unknown_value_returned_as_value", {**ctx, "via": "get_values()"})
        except ValueError:
            pass
        # the other subset getters, fed lists, tuples, generators and map objects alike
        probe_ids = sub + [unk[sim.choose(len(unk), "unk-pick2")]]
        got_known = np.array(g.are_values_known(as_iterable(sim, games.coalitions(probe_ids))))
        if got_known.tolist() != [i in h.known for i in probe_ids]:
            sim.fail(f"{clause_prefix}.known_set_differs_from_model", {**ctx, "via": "are_values_known(subset)", "subset": probe_ids})
        kvs = np.array(g.get_known_values(as_iterable(sim, games.coalitions(probe_ids))), dtype=np.float64)
        for i, x in zip(probe_ids, kvs):
            if (i in h.known and x != h.known[i]) or (i not in h.known and not np.isnan(x)):
                sim.fail(f"{clause_prefix}.unknown_value_returned_as_value",
                         {**ctx, "via": "get_known_values(subset)", "subset": probe_ids, "got": kvs.tolist()})
        lbs = np.array(g.get_lower_bounds(as_iterable(sim, games.coalitions(sub))), dtype=np.float64)
        ubs = np.array(g.get_upper_bounds(as_iterable(sim, games.coalitions(sub))), dtype=np.float64)
        ivs = np.array(g.get_intervals(as_iterable(sim, games.coalitions(sub))), dtype=np.float64)
        want = np.array([h.known[i] for i in sub])
        if not (np.array_equal(lbs, want) and np.array_equal(ubs, want) and ivs.shape == (len(sub), 2)
                and np.array_equal(ivs[:, 0], want) and np.array_equal(ivs[:, 1], want)):
            sim.fail(f"{clause_prefix}.known_coalition_value_or_bounds_wrong", {**ctx, "via": "subset bound getters", "subset": sub})
    elif not np.array_equal(np.array(g.get_values()), np.array([h.known[i] for i in range(N)])):
        sim.fail(f"{clause_prefix}.get_values_subset_wrong", {**ctx, "subset": "all"})
    if bool(g.full) != (not unk):
        sim.fail(f"{clause_prefix}.full_flag_wrong", ctx)
    sim.checked()


def plan_threaded(sim: Sim, h: Handle, N: int):
    """One bulk operation on `h`, drawn completely before the threads start: (name, thunk, after(result, new_handles))."""
    kind = sim.pick(["bulk_set", "set_all", "bulk_reset", "lower_all", "upper_all", "lower_sub", "upper_sub", "copy", "neg", "read_all"], "thr-op")
    before = table(h.g)
    if kind == "bulk_set":
        ids = sim.subset(list(range(N)), "thr-ids", 1, 2) or [N - 1]
        vals = [value(sim) for _ in ids]
        arg, coals = np.array(vals, dtype=np.float64), games.coalitions(ids)

        def after(_r, _new):
            for i, v in zip(ids, vals):
                h.known[i] = v
        return kind, (lambda: h.g.set_values(arg, coals)), after
    if kind == "set_all":
        vals = [value(sim) for _ in range(N)]
        arg = np.array(vals, dtype=np.float64)

        def after(_r, _new):
            h.known = {i: v for i, v in enumerate(vals)}
        return kind, (lambda: h.g.set_values(arg)), after
    if kind == "bulk_reset":
        ids = sim.subset(list(range(N)), "thr-ids", 1, 3) or [0]
        vals = [value(sim) for _ in ids]
        coals = games.coalitions(ids)

        def after(_r, _new):
            h.known = {i: v for i, v in zip(ids, vals)}
            h.lo, h.up = {}, {}
            if 0 not in h.known and h.g.is_value_known(games.coalition(0)):
                h.known[0] = 0.0
        return kind, (lambda: h.g.set_known_values(list(vals), coals)), after
    if kind in ("lower_all", "upper_all"):
        vals = [value(sim) for _ in range(N)]
        arg = np.array(vals, dtype=np.float64)
        setter = h.g.set_lower_bounds if kind == "lower_all" else h.g.set_upper_bounds

        def after(_r, _new):
            model = h.lo if kind == "lower_all" else h.up
            for i, v in enumerate(vals):
                if i not in h.known:
                    model[i] = v
        return kind, (lambda: setter(arg)), after
    if kind in ("lower_sub", "upper_sub"):
        ids = sim.subset(list(range(N)), "thr-ids", 1, 2) or [N - 1]
        vals = [value(sim) for _ in ids]
        arg, coals = np.array(vals, dtype=np.float64), games.coalitions(ids)
        setter = h.g.set_lower_bounds if kind == "lower_sub" else h.g.set_upper_bounds

        def after(_r, _new):
            model = h.lo if kind == "lower_sub" else h.up
            for i, v in zip(ids, vals):
                if i not in h.known:
                    model[i] = v
            # coalitions outside the subset keep whatever the model said (a subset call writes nothing else)
        return kind, (lambda: setter(arg, coals)), after
    if kind == "copy":
        def after(r, new):
            if table(r) != before or table(h.g) != before:
                sim.fail("C17.copy_differs_from_original", {"n": h.n, "handle": h.kind, "while": "another thread operated on another handle"})
            c = Handle(r, h.n, "copy-of-" + h.kind)
            c.clone_model(h)
            new.append(c)
        return kind, (lambda: h.g.copy()), after
    if kind == "neg":
        k0, l0, u0 = (np.array(a, copy=True) for a in games.arrays(h.g))

        def after(r, new):
            k1, l1, u1 = games.arrays(r)
            if not (np.array_equal(k0, k1) and np.array_equal(l1, -u0) and np.array_equal(u1, -l0)):
                sim.fail("C17.negation_does_not_swap_and_negate_bounds", {"n": h.n, "handle": h.kind, "while": "another thread operated on another handle"})
            if table(h.g) != before:
                sim.fail("C17.negation_modified_its_operand", {"n": h.n, "handle": h.kind})
            c = Handle(r, h.n, "neg-of-" + h.kind)
            c.known = {i: -v for i, v in h.known.items()}
            for i in range(N):
                if i not in h.known:
                    c.lo[i] = -h.up[i] if h.up.get(i, WILD) is not WILD else WILD
                    c.up[i] = -h.lo[i] if h.lo.get(i, WILD) is not WILD else WILD
            new.append(c)
        return kind, (lambda: -h.g), after
    # read_all: every whole-table getter, copied inside the thread
    want_known = [i in h.known for i in range(N)]

    def read():
        return (np.array(h.g.are_values_known(), copy=True), np.array(h.g.get_known_values(), dtype=np.float64, copy=True),
                np.array(h.g.get_lower_bounds(), dtype=np.float64, copy=True), np.array(h.g.get_upper_bounds(), dtype=np.float64, copy=True))

    def after(r, _new):
        kn, kv, lo, up = r
        ok = kn.tolist() == want_known and table(h.g) == before
        for i in range(N):
            if i in h.known:
                ok = ok and kv[i] == h.known[i] and lo[i] == h.known[i] and up[i] == h.known[i]
            else:
                ok = ok and bool(np.isnan(kv[i]))
        if not ok:
            sim.fail("C17.known_coalition_value_or_bounds_wrong",
                     {"n": h.n, "handle": h.kind, "via": "whole-table getters while another thread operated on another handle"})
    return kind, read, after


def threaded_step(sim: Sim, handles: list, n: int) -> None:
    """Two caller threads, each performing one bulk operation on its own handle, pre-empted between package lines."""
    N = 2 ** n
    ia = sim.choose(len(handles), "thr-a")
    ib = (ia + 1 + sim.choose(len(handles) - 1, "thr-b")) % len(handles)
    ha, hb = handles[ia], handles[ib]
    bystanders = [(o, table(o.g)) for j, o in enumerate(handles) if j not in (ia, ib)]
    ka, ta, aa = plan_threaded(sim, ha, N)
    kb, tb, ab = plan_threaded(sim, hb, N)
    sim.op("threads", ia, ka, ib, kb)
    with sim.guard("C17.operation_raised"):
        ra, rb = simthreads.interleave(sim, [ta, tb])
    new: list = []
    aa(ra, new)
    ab(rb, new)
    sim.probe("bulk_ops_on_two_handles_overlapped_in_threads")
    for o, snap in bystanders:
        if table(o.g) != snap:
            sim.fail("C17.operation_on_one_handle_changed_another", {"n": n, "operated": [ha.kind, hb.kind], "changed": o.kind, "op": "threads"})
    for c in new:
        if len(handles) < 6:
            handles.append(c)
    sim.state(n, ha.mask(), "threads:" + ka)
    sim.state(n, hb.mask(), "threads:" + kb)
    with sim.guard("C17.getter_raised"):
        for x in handles:
            check_handle(sim, x)


def run(sim: Sim) -> None:
    from incomplete_cooperative.game import IncompleteCooperativeGame
    n = 1 + sim.choose(5, "n")
    N = 2 ** n
    sim.config.update(n=n)
    prelude.warm_process(sim)
    with sim.guard("C17.operation_raised"):
        g0 = IncompleteCooperativeGame(n)
    handles = [Handle(g0, n, "original")]
    check_handle(sim, handles[0])
    steps = 10 + sim.choose(41, "steps")
    had_bounds = False
    for _ in range(steps):
        if len(handles) >= 2 and sim.flip(1, 10, "threads"):
            threaded_step(sim, handles, n)
            continue
        hi = sim.choose(len(handles), "handle")
        h = handles[hi]
        if h.kind.startswith("copy"):
            sim.probe("op_on_copy")
        if "neg" in h.kind:
            sim.probe("op_on_negation")
        if len(handles) >= 3:
            sim.probe("handles_3plus")
        others = [(o, table(o.g)) for j, o in enumerate(handles) if j != hi]
        if sim.flip(1, 14, "call-with-unusable-value"):
            # a call whose value cannot be a number: if it raises, nothing may have changed (a coalition is known
            # iff it WAS set or revealed); if it is accepted the handle is not modelled any further in this run
            i = sim.choose(N, "bad-coal")
            bad_value = sim.pick(["n/a", [1.0, 2.0], {"v": 1}], "bad-value")
            which = sim.pick(["set_value", "reveal_value", "set_values of a subset", "set_values of a wrong length"], "bad-op")
            if not (which == "reveal_value" and i in h.known):
                before_bad = table(h.g)
                sim.op("unusable-value", hi, which, i)
                try:
                    if which == "set_values of a subset":  # one entry of the bulk call is not a number
                        ids = sorted({i, sim.choose(N, "bad-coal-2")})
                        vals = [value(sim) for _ in ids]
                        vals[sim.choose(len(vals), "bad-position")] = bad_value if not isinstance(bad_value, dict) else "n/a"
                        h.g.set_values(vals, games.coalitions(ids))
                    elif which == "set_values of a wrong length":  # whole-game call with a vector of another game size
                        h.g.set_values(np.arange(2 * N + 1, dtype=np.float64))
                    else:
                        getattr(h.g, which)(bad_value, games.coalition(i))
                    accepted = True
                except Exception:
                    accepted = False
                sim.probe("call_with_unusable_value")
                if not accepted:
                    sim.fault("operation_failed_half_way")
                if accepted:
                    return  # some numpy conversion accepted it: not a modelled operation
                if table(h.g) != before_bad:
                    sim.fail("C17.failed_operation_changed_the_table",
                             {"n": n, "handle": h.kind, "what": f"{which} with value {bad_value!r} raised", "coalition": i})
        kind = sim.pick_weighted([("set", 5), ("unset", 3), ("reveal", 3), ("unreveal", 3), ("bulk_set", 2),
                                  ("bulk_reset", 2), ("bulk_lower", 3), ("bulk_upper", 3), ("scalar_bound", 3),
                                  ("copy", 1), ("neg", 1), ("set_all", 1)], "op")
        before = table(h.g)
        unknown = [i for i in range(N) if i not in h.known]
        with sim.guard("C17.operation_raised"):
            if kind == "set":
                i = sim.choose(N, "coal")
                v = value(sim)
                sim.op("set", hi, i, v)
                h.g.set_value(v, games.coalition(i))
                h.known[i] = v
            elif kind == "unset":
                i = sim.choose(N, "coal")
                sim.op("unset", hi, i)
                h.g.unset_value(games.coalition(i))
                h.known.pop(i, None)
                h.forget_bounds(i)
            elif kind == "reveal":
                i = sim.choose(N, "coal")
                v = value(sim)
                sim.op("reveal", hi, i, v)
                if i in h.known:
                    sim.probe("failed_precondition")
                    if not _rejected(sim, h, lambda: h.g.reveal_value(v, games.coalition(i)), before, "reveal of a known coalition"):
                        h.known[i] = v  # accepted: then it must behave as a set
                else:
                    h.g.reveal_value(v, games.coalition(i))
                    h.known[i] = v
            elif kind == "unreveal":
                i = sim.choose(N, "coal")
                sim.op("unreveal", hi, i)
                if i not in h.known:
                    sim.probe("failed_precondition")
                    if not _rejected(sim, h, lambda: h.g.unreveal_value(games.coalition(i)), before, "un-reveal of an unknown coalition"):
                        h.forget_bounds(i)  # accepted: then it must behave as an unset
                else:
                    h.g.unreveal_value(games.coalition(i))
                    del h.known[i]
                    h.forget_bounds(i)
            elif kind == "bulk_set":
                ids = sim.subset(list(range(N)), "ids", 1, 3) or [N - 1]
                vals = [value(sim) for _ in ids]
                sim.op("bulk_set", hi, ids)
                h.g.set_values(np.array(vals, dtype=np.float64), as_iterable(sim, games.coalitions(ids)))
                for i, v in zip(ids, vals):
                    h.known[i] = v
            elif kind == "set_all":
                vals = [value(sim) for _ in range(N)]
                sim.op("set_all", hi)
                h.g.set_values(np.array(vals, dtype=np.float64))
                h.known = {i: v for i, v in enumerate(vals)}
            elif kind == "bulk_reset":
                ids = sim.subset(list(range(N)), "ids", 1, 3)
                vals = [value(sim) for _ in ids]
                sim.op("bulk_reset", hi, ids)
                if had_bounds:
                    sim.probe("reset_after_bounds")
                if ids or sim.flip(1, 2, "reset-empty"):
                    h.g.set_known_values(as_iterable(sim, vals), as_iterable(sim, games.coalitions(ids)))
                    h.known = {}
                    for i, v in zip(ids, vals):
                        h.known[i] = v
                    h.lo, h.up = {}, {}
                    if 0 not in h.known and h.g.is_value_known(games.coalition(0)):
                        h.known[0] = 0.0  # a reset may re-establish the empty coalition, then with value 0
            elif kind in ("bulk_lower", "bulk_upper"):
                model = h.lo if kind == "bulk_lower" else h.up
                setter = h.g.set_lower_bounds if kind == "bulk_lower" else h.g.set_upper_bounds
                if sim.flip(1, 3, "all-coalitions"):
                    donor = others[sim.choose(len(others), "donor")][0] if others and sim.flip(1, 2, "live-view-argument") else None
                    if donor is not None:
                        # the argument is the live array another handle's getter returned
                        arg = donor.g.get_upper_bounds() if sim.choose(2, "donor-column") else donor.g.get_lower_bounds()
                        sim.probe("bulk_setter_fed_live_view_of_another_handle")
                    else:
                        arg = np.array([value(sim) for _ in range(N)], dtype=np.float64)
                    vals = [float(x) for x in arg]
                    keep = np.array(arg, copy=True)
                    sim.op(kind, hi, "all")
                    setter(arg)
                    if not np.array_equal(np.asarray(arg), keep, equal_nan=True):
                        sim.fail("C17.bulk_setter_modified_its_argument", {"n": n, "handle": h.kind, "op": kind,
                                                                          "live_view_of": donor.kind if donor else None})
                    ids = list(range(N))
                else:
                    ids = sim.subset(list(range(N)), "ids", 1, 2) or [N - 1]
                    vals = [value(sim) for _ in ids]
                    sim.op(kind, hi, ids)
                    setter(np.array(vals, dtype=np.float64), as_iterable(sim, games.coalitions(ids)))
                if any(i in h.known for i in ids):
                    sim.probe("bulk_bounds_overlapping_known")
                for i, v in zip(ids, vals):
                    if i not in h.known:
                        model[i] = v
                had_bounds = True
            elif kind == "scalar_bound" and unknown:
                i = sim.pick(unknown, "coal")
                v = value(sim)
                which = sim.choose(2, "which")
                sim.op("scalar_bound", hi, i, which, v)
                if which:
                    h.g.set_upper_bound(v, games.coalition(i))
                    h.up[i] = v
                else:
                    h.g.set_lower_bound(v, games.coalition(i))
                    h.lo[i] = v
                had_bounds = True
            elif kind == "copy" and len(handles) < 6:
                sim.op("copy", hi)
                c = Handle(h.g.copy(), n, "copy-of-" + h.kind)
                c.clone_model(h)
                handles.append(c)
                if table(c.g) != before:
                    sim.fail("C17.copy_differs_from_original", {"n": n, "handle": h.kind})
            elif kind == "neg" and len(handles) < 6:
                sim.op("neg", hi)
                ng = -h.g
                c = Handle(ng, n, "neg-of-" + h.kind)
                c.known = {i: -v for i, v in h.known.items()}
                for i in range(N):
                    if i not in h.known:
                        c.lo[i] = -h.up[i] if h.up.get(i, WILD) is not WILD else WILD
                        c.up[i] = -h.lo[i] if h.lo.get(i, WILD) is not WILD else WILD
                handles.append(c)
                # exact table relation and involution
                k0, l0, u0 = games.arrays(h.g)
                k1, l1, u1 = games.arrays(ng)
                if not (np.array_equal(k0, k1) and np.array_equal(l1, -u0) and np.array_equal(u1, -l0)):
                    sim.fail("C17.negation_does_not_swap_and_negate_bounds", {"n": n, "handle": h.kind})
                k2, l2, u2 = games.arrays(-ng)
                if not (np.array_equal(k0, k2) and np.array_equal(l0, l2) and np.array_equal(u0, u2)):
                    sim.fail("C17.negation_is_not_an_involution", {"n": n, "handle": h.kind})
                if table(h.g) != before:
                    sim.fail("C17.negation_modified_its_operand", {"n": n, "handle": h.kind})
        sim.state(n, h.mask(), kind)
        for o, snap in others:
            if table(o.g) != snap:
                sim.fail("C17.operation_on_one_handle_changed_another",
                         {"n": n, "operated": h.kind, "changed": o.kind, "op": kind})
        with sim.guard("C17.getter_raised"):
            for x in handles:
                check_handle(sim, x)


def _rejected(sim: Sim, h: Handle, fn, before: bytes, what: str) -> bool:
    """An operation whose precondition is false may be rejected (table unchanged) or accepted."""
    try:
        fn()
    except AssertionError:
        if table(h.g) != before:
            sim.fail("C17.failed_operation_changed_the_table", {"n": h.n, "handle": h.kind, "what": what})
        return True
    return False
