"""C01 - superadditive bounds contain the true game after any operation history.

Claimed clause: the *history* clause.  After any seeded sequence of reveal / un-reveal /
bulk reset / recompute operations (with recomputes torn by a simulated KeyboardInterrupt,
scribbled bounds and memo evictions as faults) ending in a knowledge set K that contains
the minimal information, both SA computers give lower <= v <= upper, lower <= upper and
known rows exactly v.  The (game, K) pairs are those the histories reach.
"""
from __future__ import annotations

import os

import numpy as np

from .. import em, games, gm, simthreads
from .. import prelude
from ..core import Sim

LEVEL = "exploration"
RULE = ("Each run draws one hidden superadditive game (harness closure of integer / dyadic / float base values, "
        "negative and non-zero-normalised included, or a registered superadditive family), one of the two SA "
        "computers, n = 3..6 (thorough ..7) and a history of <= 40 truthful operations (reveal, un-reveal, bulk "
        "reset, bulk set, compute) with faults (torn compute, scribbled bounds, memo eviction, reveals that fail "
        "because the value is not a number, computes overlapped with another caller thread's compute); the containment "
        "invariant is evaluated after every completed compute. Non-trivial = evaluated after a mutation; distinct = "
        "distinct event-log digests.")
STATE_MEASURE = "distinct (n, computer, knowledge bitmask) at which containment was evaluated"
REAL_VS_STUB = {"real": ["incomplete_cooperative.bounds (both SA computers)", "game", "coalitions", "coalition_ids",
                         "generators (registry families as hidden-game source)"], "stub": [],
                "seams": ["sys.settrace interrupt injector", "functools cache eviction",
                          "line-granular thread interleaver (sim/simthreads.py)"]}
ASSUMPTIONS = ["the for-all-games / for-all-K part is only sampled along the histories drawn",
               "exact mode (integer / dyadic values): exact comparisons; float mode: tolerance 1e-9*max(1,max|v|)",
               "premise (hidden game superadditive, K contains the minimal information) is re-checked independently"]
PROBES = ["reveal_failed_then_history_continued", "compute_overlapped_with_another_threads_compute", "dense_knowledge_large_n", "large_n", "torn_then_recomputed", "scribble_then_compute", "negative_values", "registry_game", "exact_mode",
          "float_mode", "unreveal_then_compute"]
TIERS = {
    "quick": {"runs": 120000, "wall": 40, "batch": 48, "shrink_s": 40},
    "thorough": {"runs": 20000000, "wall": 900, "batch": 64, "shrink_s": 120},
}
SA_REGISTRY = ["factory", "factory_square", "factory_exp", "noisy_factory", "noisy_factory_square", "graph_random",
               "graph_cycle", "graph_ws_connected", "factory_cheerleader", "factory_cheerleader_next",
               "graph_geometric", "noisy_factory_exp", "factory_one", "graph_internet"]


def preload() -> None:
    import incomplete_cooperative.bounds  # noqa: F401
    import incomplete_cooperative.generators  # noqa: F401


def check_containment(sim: Sim, h: gm.GameHarness, exact: bool, P: str = "C01") -> None:
    known, lo, up = games.arrays(h.g)
    v = h.values
    tol = 0.0 if exact else games.tolerance(v)
    ctx = {"n": h.n, "computer": h.comp_name, "known": sorted(h.kv), "exact": exact}
    sim.checked()
    sim.state(h.n, h.comp_name, h.mask())
    bad = np.nonzero(lo > v + tol)[0]
    if len(bad):
        i = int(bad[0])
        sim.fail(f"{P}.lower_bound_above_true_value", {**ctx, "coalition": i, "lower": float(lo[i]), "value": float(v[i])})
    bad = np.nonzero(up < v - tol)[0]
    if len(bad):
        i = int(bad[0])
        sim.fail(f"{P}.upper_bound_below_true_value", {**ctx, "coalition": i, "upper": float(up[i]), "value": float(v[i])})
    bad = np.nonzero(lo > up + tol)[0]
    if len(bad):
        i = int(bad[0])
        sim.fail(f"{P}.lower_above_upper", {**ctx, "coalition": i, "lower": float(lo[i]), "upper": float(up[i])})
    for i in h.kv:
        if not known[i] or lo[i] != v[i] or up[i] != v[i]:
            sim.fail(f"{P}.known_interval_is_not_exactly_the_value",
                     {**ctx, "coalition": i, "value": float(v[i]), "lower": float(lo[i]), "upper": float(up[i])})
    if int(known.sum()) != len(h.kv):
        sim.fail(f"{P}.known_set_differs_from_history", {**ctx, "got": [int(i) for i in np.nonzero(known)[0]]})


def draw_hidden(sim: Sim, n: int) -> tuple[np.ndarray, bool, str]:
    if sim.flip(1, 4, "registry"):
        key = sim.pick(SA_REGISTRY, "registry-key")
        src = em.RegistrySource(key, n, sim.choose(2 ** 32, "registry-seed"))
        with sim.guard("C01.generator_raised"):
            src()
        v = src.current()
        ok = games.is_sa(v, n, 1e-9 * max(1.0, float(np.max(np.abs(v)))))
        if not ok:  # not this property's business (C10); fall back to a harness game
            return (*games.draw_game(sim, n, "SA"), "harness")
        sim.probe("registry_game")
        exact = bool(np.all(v == np.round(v)) and np.max(np.abs(v)) < 2 ** 40)
        return v, exact, key
    v, exact = games.draw_game(sim, n, "SA")
    return v, exact, "harness"


def run_large(sim: Sim) -> None:
    """Rare: n = 7..11 with the cached computer (the uncached one is O(3^n) Python objects): a short history
    around one or two recomputes, negative and non-zero-normalised values included."""
    n = 7 + sim.choose(5, "large-n")
    rng = sim.np_rng("large-values")
    base = rng.integers(-6, 7, 2 ** n).astype(np.float64) / sim.pick([1.0, 4.0], "large-denominator")
    if sim.flip(1, 2, "all-negative-singletons"):
        for i in range(n):
            base[1 << i] = -abs(base[1 << i]) - 1.0
    values = games.sa_closure(base, n)
    sim.config.update(n=n, exact=True, source="harness-large")
    sim.probe("large_n")
    if (values < 0).any():
        sim.probe("negative_values")
    dense = sim.flip(1, 3, "dense-knowledge")
    comp_name = "superadditive_cached"
    if dense and n <= 10 and sim.flip(1, 2, "uncached-at-large-n"):
        comp_name = "superadditive"  # affordable only when few coalitions are unknown
    sim.config.update(computer=comp_name, dense=dense)
    h = gm.GameHarness(sim, n, comp_name, values)
    with sim.guard("C01.operation_raised"):
        if dense:
            # nearly everything is known: 2..40 unknown coalitions of at most a few distinct sizes
            n_unknown = 2 + sim.choose(39, "n-unknown")
            sizes_allowed = sim.shuffled(list(range(2, n)), "unknown-sizes")[:1 + sim.choose(4, "n-sizes")]
            if sim.flip(1, 2, "include-largest-size"):  # boundary sizes: the largest proper coalitions
                sizes_allowed = sorted(set(sizes_allowed[:3]) | {n - 1})
            sizes_allowed = sorted(sizes_allowed)
            by_size = {k: [e for e in h.explorable if games.popcount(e) == k] for k in sizes_allowed}
            unknown: set[int] = set()
            for _ in range(n_unknown):  # sizes first, so that the few large coalitions are as likely as the many small
                k = sizes_allowed[int(rng.integers(len(sizes_allowed)))]
                unknown.add(int(by_size[k][int(rng.integers(len(by_size[k])))]))
            extra = [e for e in h.explorable if e not in unknown]
            sim.probe("dense_knowledge_large_n")
        else:
            extra = [e for e in h.explorable if rng.random() < 0.02]
        h.reset_minimal(extra)
        h.compute()
    check_containment(sim, h, True)
    for _ in range(sim.choose(3, "large-ops")):
        with sim.guard("C01.operation_raised"):
            unk = [i for i in h.explorable if i not in h.kv]
            kn = h.known_nonminimal()
            if kn and sim.flip(1, 2, "large-unreveal"):
                h.unreveal(sim.pick(kn, "which"))
            elif unk:
                h.reveal(sim.pick(unk, "which"))
            h.compute()
        check_containment(sim, h, True)


def run(sim: Sim) -> None:
    thorough = sim.tier == "thorough"
    if sim.choose(30 if thorough else 200, "large-mode") == 1 or os.environ.get("VERIF_FORCE_LARGE"):
        return run_large(sim)
    n = 3 + sim.choose(5 if thorough else 4, "n")
    comp_name = sim.pick(games.SA_COMPUTERS, "computer")
    values, exact, source = draw_hidden(sim, n)
    if (values < 0).any():
        sim.probe("negative_values")
    sim.probe("exact_mode" if exact else "float_mode")
    sim.config.update(n=n, computer=comp_name, exact=exact, source=source)
    prelude.warm_process(sim)
    h = gm.GameHarness(sim, n, comp_name, values)
    with sim.guard("C01.operation_raised"):
        h.reset_minimal(sim.subset(h.explorable, "start-extra", 1, 4))
    steps = 6 + sim.choose({3: 34, 4: 30, 5: 16, 6: 8, 7: 5}[n], "steps")
    last_kind = ""
    for _ in range(steps):
        if sim.flip(1, 16, "other-use"):
            prelude.warm_process(sim, label="midrun")
        if sim.flip(1, 14, "failed-reveal") and h.unknown():
            # a reveal that fails: the value handed in is not a number (the caller passed a list / a label); the call
            # may raise, and the history simply goes on - the coalition was never revealed
            i = sim.pick(h.unknown(), "failed-reveal-coalition")
            bad_value = sim.pick(["n/a", [1.0, 2.0], {"v": 1}], "bad-value")
            sim.op("reveal-with-unusable-value", i)
            try:
                h.g.reveal_value(bad_value, games.coalition(i))
                return  # some numpy conversion accepted it: not a modelled operation
            except Exception:
                h.dirty = True
                sim.fault("operation_failed_half_way")
                sim.probe("reveal_failed_then_history_continued")
        if not h.dirty and h.n <= 5 and sim.flip(1, 12, "threads"):
            # another caller thread computes the bounds of an unrelated game object while this one is recomputed
            with sim.guard("C01.operation_raised"):
                v2, _ = games.draw_game(sim, h.n if sim.flip(1, 2, "same-n") else 3 + sim.choose(3, "other-n"), "SA")
                n2 = int(np.log2(len(v2)))
                g2 = games.new_game(n2, games.computer(comp_name))
                ids2 = games.minimal_ids(n2) + sim.subset(games.explorable_ids(n2), "other-known", 0, 4)
                g2.set_known_values([float(v2[j]) for j in ids2], games.coalitions(ids2))
                simthreads.interleave(sim, [h.g.compute_bounds, g2.compute_bounds])
            sim.probe("compute_overlapped_with_another_threads_compute")
            check_containment(sim, h, exact)
        with sim.guard("C01.operation_raised"):
            op = gm.draw_op(sim, h, truthful=True, allow_break_minimal=False)
            fault = None
            if op[0] == "compute" and sim.flip(1, 8, "fault?"):
                fault = gm.inject_fault(sim, h)
            gm.apply_op(h, op)
            if op[0] == "compute" and not h.dirty:
                if fault == "torn":
                    sim.probe("torn_then_recomputed")
                if fault == "scribble":
                    sim.probe("scribble_then_compute")
                if last_kind == "unreveal":
                    sim.probe("unreveal_then_compute")
                check_containment(sim, h, exact)
            last_kind = op[0]
    with sim.guard("C01.operation_raised"):
        h.compute()  # bounded progress: one completed compute after the last fault
    check_containment(sim, h, exact)
