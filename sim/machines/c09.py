"""C09 - the reveal-one-coalition environment reflects exactly what was revealed.

Clients interleaved by the scheduler on one long-lived environment: the agent (reset,
step with a valid action, unstep of a previously stepped action, in any order), the
four built-in solvers (next_step probes) and the fault injector (calls torn by a
simulated KeyboardInterrupt, followed by reset as recovery; a hidden-game source that raises
during reset; a second client's call overlapping the judged step in another thread).  Reference model: the list
of hidden games the source produced, the set of currently revealed actions, a counter.
"""
from __future__ import annotations

import numpy as np

from .. import em, games, seams, simthreads
from .. import prelude
from ..core import HarnessError, Sim, SimKill, Violation

LEVEL = "exploration"
RULE = ("Each run builds one environment (n = 3..5; computer x class-matched hidden-game source: harness SA/SAM "
        "constructions, registered families with a private generator, or ModelInstance.get_env with the registry "
        "entry recorded; gap function from the registry; budget None or k) and drives 8..40 interleaved client "
        "calls (reset / step / unstep in any order / solver probes / torn calls followed by reset / resets whose "
        "hidden-game source raises / steps overlapped with a second client's call in another thread). After every "
        "returned call all clauses are evaluated against the reference model. Non-trivial = evaluated after a "
        "state change; distinct = distinct event-log digests.")
STATE_MEASURE = "distinct (n, computer, set of revealed actions) at which all clauses were evaluated"
REAL_VS_STUB = {"real": ["icg_gym.ICG_Gym", "normalize", "game", "bounds", "norms", "exploitability", "solvers.*",
                         "run.model.ModelInstance.get_env", "generators"], "stub": [],
                "seams": ["interrupt injector", "recording wrapper around one GENERATORS registry entry",
                          "hidden RNG streams set from the tape", "hidden-game source that can be told to raise once",
                          "line-granular thread interleaver (sim/simthreads.py)"]}
ASSUMPTIONS = ["float-additive hidden games (surplus below 1e-6*scale, the C15 corner) are excluded from the "
               "independent-normalisation comparison only", "after a torn call the environment is only required to "
               "satisfy every clause again after reset()",
               "reward <= rounding tolerance is demanded only for class-matched hidden games",
               "after a reset that failed because the hidden-game source raised, the environment must satisfy every "
               "clause either for the state before the call or for the freshly reset state of the same hidden game"]
PROBES = ["reset_failed_in_the_source", "step_overlapped_with_other_clients_call", "second_client_interleaved", "env_pickled_mid_session", "done_by_budget", "done_by_degenerate_before_exhaustion", "done_by_exhaustion", "unstep_after_2_steps",
          "reset_after_torn_call", "solver_probe", "model_instance_env", "independent_normalisation_checked",
          "step_after_done", "unstep_out_of_order"]
TIERS = {
    "quick": {"runs": 8000, "wall": 40, "batch": 8, "shrink_s": 40},
    "thorough": {"runs": 2000000, "wall": 900, "batch": 16, "shrink_s": 120},
}
SA_KEYS = ["factory", "factory_square", "noisy_factory", "noisy_factory_exp", "graph_random", "graph_cycle",
           "graph_ws_connected", "factory_cheerleader", "factory_cheerleader_next", "graph", "graph_beta_2_3",
           "predictible_factory", "graph_poiss_1", "graph_geometric"]
SAM_KEYS = ["xos", "xos2", "xos12", "xos_norm_additive", "xs", "xs3", "oxs", "k_budget_generator",
            "covg_fn_generator", "xos_one"]


def preload() -> None:
    import incomplete_cooperative.run.model  # noqa: F401
    import incomplete_cooperative.solvers  # noqa: F401


class Recorder:
    """Recording wrapper around one registry generator (the harness must know every draw)."""

    def __init__(self, fn) -> None:
        self.fn = fn
        self.draws: list[np.ndarray] = []
        self.fail_next: type | None = None

    def __call__(self, *a, **k):
        if self.fail_next is not None:
            exc, self.fail_next = self.fail_next, None
            raise exc("injected: the hidden-game source failed")
        g = self.fn(*a, **k)
        self.draws.append(games.tabulate(g))
        return g

    def current(self) -> np.ndarray:
        return self.draws[-1]


def run(sim: Sim) -> None:
    from incomplete_cooperative.generators import GENERATORS
    from incomplete_cooperative.run.model import GAP_FUNCTIONS, ModelInstance
    from incomplete_cooperative.solvers import SOLVERS
    n = 3 + sim.choose(3, "n")
    cls = sim.pick(["SA", "SAM"], "class")
    matched = True
    comp_name = sim.pick(games.computers_for(cls, n, heavy_ok=sim.flip(1, 10, "heavy")), "computer")
    gap_name = sim.pick(sorted(GAP_FUNCTIONS), "gap")
    gap = GAP_FUNCTIONS[gap_name]
    explorable = games.explorable_ids(n)
    budget = None if sim.flip(1, 2, "budget?") is False else sim.choose(len(explorable) + 2, "budget")  # 0 = used up at once
    src_kind = sim.pick_weighted([("harness", 4), ("registry", 3), ("model", 2), ("unmatched", 1)], "source")
    restore = None
    exact = False
    prelude.warm_process(sim)
    try:
        with sim.guard("C09.construction_raised"):
            if src_kind in ("harness", "unmatched"):
                if src_kind == "unmatched":
                    matched = False
                    drawn = [games.draw_game(sim, n, "ANY") for _ in range(3)]
                else:
                    drawn = [games.draw_game(sim, n, cls) for _ in range(1 + sim.choose(4, "n-games"))]
                exact = all(e for _, e in drawn)
                source = em.ListSource([v for v, _ in drawn], n)
                env = em.make_env(n, comp_name, source, gap, budget)
            elif src_kind == "registry":
                key = sim.pick(SA_KEYS if cls == "SA" else SAM_KEYS, "key")
                source = em.RegistrySource(key, n, sim.choose(2 ** 32, "seed"))
                env = em.make_env(n, comp_name, source, gap, budget)
                sim.config.update(key=key)
            else:
                key = sim.pick(SA_KEYS if cls == "SA" else SAM_KEYS, "key")
                source = Recorder(GENERATORS[key])
                restore = (key, GENERATORS[key])
                GENERATORS[key] = source
                inst = ModelInstance(number_of_players=n, game_class=comp_name, game_generator=key,
                                     gap_function=gap_name, run_steps_limit=budget,
                                     seed=sim.choose(2 ** 32, "seed"), unique_name="sim")
                env = inst.get_env()
                sim.probe("model_instance_env")
                sim.config.update(key=key)
        sim.config.update(n=n, cls=cls, computer=comp_name, gap=gap_name, budget=budget, source=src_kind)
        _drive(sim, env, source, n, comp_name, gap, budget, matched, exact, SOLVERS)
    finally:
        if restore is not None:
            GENERATORS[restore[0]] = restore[1]


def _drive(sim: Sim, env, source, n, comp_name, gap, budget, matched, exact, SOLVERS) -> None:
    P = "C09"
    revealed: list[int] = []
    steps_taken = 0
    hidden = source.current()
    sim.op("construct")
    em.check_env(sim, env, n, comp_name, gap, hidden, revealed, steps_taken, budget, matched, exact, P)
    solvers = {}
    other = em.OtherClientEnv(sim, n, comp_name, gap, "SAM" if comp_name.startswith("sam") else "SA", budget=budget) \
        if sim.flip(1, 3, "second-client") else None
    calls = 8 + sim.choose(33, "calls")
    for _ in range(calls):
        valid = [a for a in range(len(env.explorable_coalitions)) if a not in revealed]
        if other is not None and sim.flip(1, 3, "other-client-moves"):
            other.act(sim.pick(valid, "upcoming") if valid and sim.flip(1, 2, "lockstep") else None)
            sim.probe("second_client_interleaved")
        kinds = [("reset", 2), ("probe", 2), ("torn", 1), ("failed-reset", 1)]
        if sim.flip(1, 20, "other-use"):
            prelude.warm_process(sim, label="midrun")
        if sim.flip(1, 14, "process-boundary"):
            # the environment is shipped to another process (what evaluate() does with a pool): from here on
            # the session continues on the unpickled copy, whose hidden-game source travelled with it
            import pickle
            with sim.guard("C09.pickling_raised"):
                env = pickle.loads(pickle.dumps(env))
            if not isinstance(source, Recorder):
                source = env.generator
            solvers = {}
            sim.fault("environment_crossed_a_process_boundary")
            sim.probe("env_pickled_mid_session")
            em.check_env(sim, env, n, comp_name, gap, hidden, revealed, steps_taken, budget, matched, exact, P)
        if valid:
            kinds.append(("step", 8))
        if revealed:
            kinds.append(("unstep", 3))
        kind = sim.pick_weighted(kinds, "client-call")
        if kind == "reset":
            sim.op("reset")
            with sim.guard("C09.reset_raised"):
                how = sim.choose(3, "reset-args")
                ret = env.reset() if how == 0 else (env.reset(seed=sim.choose(2 ** 31, "reset-seed")) if how == 1
                                                    else env.reset(seed=None, options={}))
            revealed, steps_taken = [], 0
            hidden = source.current()
            em.check_env(sim, env, n, comp_name, gap, hidden, revealed, steps_taken, budget, matched, exact, P)
            obs = np.array(ret[0], dtype=np.float64)
            if not np.array_equal(obs, np.array(env.state, dtype=np.float64)) or np.any(obs != 0):
                sim.fail("C09.reset_observation_not_all_zero", {"n": n, "obs": obs.tolist()})
        elif kind == "failed-reset":
            # injected fault: the hidden-game source raises while reset() draws the next game.  The call may fail,
            # but what it leaves behind must be a state the property describes: everything as before the call, or
            # (an implementation that forgets first) the minimal information of the same hidden game - not a mixture.
            exc = sim.pick([OSError, ImportError, MemoryError, KeyboardInterrupt], "source-fault")
            source.fail_next = exc
            sim.op("reset-with-failing-source", exc.__name__)
            try:
                env.reset()
                failed = False
            except BaseException as e:  # noqa: BLE001 - the injected fault (possibly wrapped by the package)
                if isinstance(e, (Violation, HarnessError, SimKill)):
                    raise
                failed = True
            if not failed:  # the environment coped (retried the source): an ordinary reset
                source.fail_next = None
                revealed, steps_taken = [], 0
                hidden = source.current()
                em.check_env(sim, env, n, comp_name, gap, hidden, revealed, steps_taken, budget, matched, exact, P)
                continue
            sim.fault("source_failed_during_reset")
            sim.probe("reset_failed_in_the_source")
            problems = []
            for cand_revealed, cand_steps in ((revealed, steps_taken), ([], 0)):
                try:
                    em.check_env(sim, env, n, comp_name, gap, hidden, list(cand_revealed), cand_steps, budget, matched,
                                 exact, P)
                    revealed, steps_taken = list(cand_revealed), cand_steps
                    break
                except Violation as v:
                    problems.append({"assumed": {"revealed": list(cand_revealed), "steps": cand_steps},
                                     "clause": v.clause, "detail": v.detail})
            else:
                sim.fail("C09.failed_reset_left_neither_the_old_nor_a_reset_state", {"n": n, "problems": problems})
        elif kind == "step":
            a = sim.pick(valid, "action")
            was_done = bool(env.done)
            sim.op("step", a)
            other_call = other.thunk(a if sim.flip(1, 2, "lockstep") else None) \
                if other is not None and sim.flip(1, 3, "threads") else None
            with sim.guard("C09.step_raised"):
                if other_call is not None:
                    # the second client is a second caller thread: its call and the judged step overlap, pre-empted
                    # between package lines as the tape says; the judged step must come out as if it ran alone
                    ret = simthreads.interleave(sim, [lambda: env.step(a), other_call])[0]
                    sim.probe("step_overlapped_with_other_clients_call")
                else:
                    ret = env.step(a)
            if was_done:
                sim.probe("step_after_done")
            revealed.append(a)
            steps_taken += 1
            em.check_env(sim, env, n, comp_name, gap, hidden, revealed, steps_taken, budget, matched, exact, P,
                         ret=ret, last_action=a)
        elif kind == "unstep":
            i = sim.choose(len(revealed), "unstep-which")
            if i != len(revealed) - 1:
                sim.probe("unstep_out_of_order")
            if len(revealed) >= 2:
                sim.probe("unstep_after_2_steps")
            a = revealed.pop(i)
            sim.op("unstep", a)
            with sim.guard("C09.unstep_raised"):
                ret = env.unstep(a)
            steps_taken -= 1
            em.check_env(sim, env, n, comp_name, gap, hidden, revealed, steps_taken, budget, matched, exact, P,
                         ret=ret, last_action=a)
        elif kind == "probe":
            name = sim.pick(sorted(SOLVERS), "solver")
            if name not in solvers:
                from incomplete_cooperative.run.model import ModelInstance
                solvers[name] = SOLVERS[name](ModelInstance(number_of_players=n, seed=sim.choose(1000, "solver-seed"),
                                                            unique_name="sim"))
            if not valid:
                continue
            if name.startswith("greedy") and len(valid) > 12 and comp_name in ("sam_apx_100", "sam_apx_1000"):
                continue
            sim.op("solver-probe", name, mutating=False)
            sim.probe("solver_probe")
            with sim.guard("C09.solver_probe_raised"):
                solvers[name].next_step(env)
            em.check_env(sim, env, n, comp_name, gap, hidden, revealed, steps_taken, budget, matched, exact, P)
        else:  # a call torn half-way, then recovery by reset
            which = sim.pick(["step", "unstep", "reset"], "torn-what")
            if which == "step" and valid:
                a = sim.pick(valid, "torn-action")
                fn = lambda: env.step(a)  # noqa: E731
            elif which == "unstep" and revealed:
                a = sim.pick(revealed, "torn-action")
                fn = lambda: env.unstep(a)  # noqa: E731
            else:
                which = "reset"
                fn = env.reset
            # length of the call is learned from the operation kind (bounded draw; the tracer tells if it fired)
            k = 1 + sim.choose(400 if n <= 4 else 2500, "tear-at")
            fired = seams.run_torn(fn, k)
            if fired:
                sim.fault("torn_" + which, k)
                sim.op("reset")
                with sim.guard("C09.reset_raised"):
                    env.reset()
                sim.probe("reset_after_torn_call")
                revealed, steps_taken = [], 0
                hidden = source.current()
            else:  # the call completed before the tear point: account for it as a normal call
                if which == "step":
                    revealed.append(a)
                    steps_taken += 1
                    sim.op("step", a)
                elif which == "unstep":
                    revealed.remove(a)
                    steps_taken -= 1
                    sim.op("unstep", a)
                else:
                    revealed, steps_taken = [], 0
                    hidden = source.current()
                    sim.op("reset")
            em.check_env(sim, env, n, comp_name, gap, hidden, revealed, steps_taken, budget, matched, exact, P)
