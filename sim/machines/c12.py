"""C12 - evaluate() records true trajectories; results independent of parallelism.

evaluate() is run under SimPool for several (worker count, process-image model,
schedule) configurations from one seed and compared with its own sequential result;
each repetition's hidden game is observed through a simulator-owned side channel.
"""
from __future__ import annotations

import numpy as np

from .. import games, pm, seams, simpool, simthreads
from .. import prelude
from ..core import Sim

LEVEL = "exploration"
RULE = ("Each run fixes (solver, n in 3..4, computer x class-matched generator family, gap, repetitions 1..12 "
        "(thorough ..24), step limit 1..5, env budget, seed, environment source: A = private pre-seeded source per "
        "environment, B = ModelInstance.get_env) and executes evaluate() sequentially and under 2..3 tape-drawn "
        "(processes 2..16, fork/fresh image, chunk->worker schedule) configurations of the simulated pool. "
        "Clauses: (a) every column is the true trajectory of the hidden game seen by that repetition; (b) results "
        "identical for every configuration; (c) continuous families: no two repetitions see the same game. "
        "Non-trivial = at least one pooled evaluation compared; distinct = distinct event-log digests.")
STATE_MEASURE = "distinct (processes, chunk->worker assignment, image model) schedules executed (see schedules_distinct)"
REAL_VS_STUB = {"real": ["evaluation.evaluate / eval_one", "icg_gym", "solvers.*", "run.model.ModelInstance",
                         "generators", "pickling of every chunk through ForkingPickler"],
                "stub": ["multiprocessing.Pool -> SimPool (calibrated against the real pool)"],
                "seams": ["chunk->worker scheduler", "process images (fork / fresh)", "after_reset side channel"]}
ASSUMPTIONS = ["rows after `done` are padding and are not compared",
               "families with per-process state (graph-weight-distribution family, round-robin factory) are not "
               "used for clauses (b) and (c)", "SimPool models process pools at task granularity; worker death "
               "(which hangs the real Pool.map) is not injected"]
PROBES = ["evaluation_overlapped_with_another_threads_evaluation", "evaluation_after_an_interrupted_one", "same_configuration_under_two_gap_functions", "source_A", "source_B", "random_solver", "chunk_with_2plus_tasks", "worker_ran_2plus_chunks",
          "more_workers_than_chunks", "stopped_by_done_before_limit", "calibrated_against_real_pool",
          "fresh_image", "fork_image"]
TIERS = {
    "quick": {"runs": 4000, "wall": 40, "batch": 6, "shrink_s": 40},
    "thorough": {"runs": 800000, "wall": 1200, "batch": 8, "shrink_s": 150},
}
CONT = {"SA": ["noisy_factory", "noisy_factory_square", "noisy_factory_exp", "noisy_factory_fixed"],
        "SAM": ["xos", "xos2", "xos12", "xs", "oxs", "xos_norm_additive", "xs3"]}
DISCRETE = {"SA": ["factory", "factory_square", "graph_random", "graph_cycle", "factory_cheerleader"],
            "SAM": ["k_budget_generator", "covg_fn_generator"]}


def preload() -> None:
    import incomplete_cooperative.evaluation  # noqa: F401
    import incomplete_cooperative.run.model  # noqa: F401
    import incomplete_cooperative.solvers  # noqa: F401
    simpool.record_import_scalars()


def replay_trajectories(sim: Sim, E: np.ndarray, A: np.ndarray, channel, n: int, comp_name: str, gap, budget,
                        reps: int, limit: int, ctx: dict) -> list[np.ndarray]:
    """Clause (a).  Returns the hidden game of every repetition."""
    sim.checked()
    if E.shape != (limit + 1, reps) or A.shape != (limit, reps):
        sim.fail("C12.result_shape", {**ctx, "E": list(E.shape), "A": list(A.shape)})
    by_rep: dict[int, list[np.ndarray]] = {}
    for rep, hv in channel:
        by_rep.setdefault(rep, []).append(hv)
    if sorted(by_rep) != list(range(reps)) or any(len(v) != 1 for v in by_rep.values()):
        sim.fail("C12.after_reset_not_called_exactly_once_per_repetition",
                 {**ctx, "seen": {k: len(v) for k, v in by_rep.items()}})
    minimal = games.minimal_ids(n)
    explorable = set(games.explorable_ids(n))
    comp = games.computer(comp_name)
    hidden_all = []
    for j in range(reps):
        hidden = by_rep[j][0]
        hidden_all.append(hidden)
        K = list(minimal)
        f = games.fresh(n, comp, K, hidden)
        want = gap(f)
        if np.float64(E[0, j]).tobytes() != np.float64(want).tobytes():
            sim.fail("C12.row0_is_not_gap_at_minimal_information",
                     {**ctx, "repetition": j, "expected": float(want), "got": float(E[0, j])})
        for t in range(limit):
            cid = A[t, j]
            if cid != int(cid) or int(cid) not in explorable or int(cid) in K:
                sim.fail("C12.recorded_action_is_not_a_fresh_explorable_coalition_id",
                         {**ctx, "repetition": j, "step": t, "recorded": float(cid), "revealed_before": K[len(minimal):]})
            K.append(int(cid))
            f = games.fresh(n, comp, K, hidden)
            want = gap(f)
            if np.float64(E[t + 1, j]).tobytes() != np.float64(want).tobytes():
                sim.fail("C12.row_is_not_gap_after_the_recorded_reveals",
                         {**ctx, "repetition": j, "step": t, "revealed": K[len(minimal):], "expected": float(want),
                          "got": float(E[t + 1, j])})
            lo, up = np.array(f.get_lower_bounds()), np.array(f.get_upper_bounds())
            done = (budget is not None and t + 1 >= budget) or len(K) == 2 ** n or bool(np.all(up - lo == 0))
            if done:
                if t + 1 < limit:
                    sim.probe("stopped_by_done_before_limit")
                    # what follows the end of the episode is padding: zeros (as written today) or the final gap
                    # carried forward - never any other number, and no further coalition ids
                    tail, final = E[t + 2:, j], E[t + 1, j]
                    if not all(x == 0 or np.float64(x).tobytes() == np.float64(final).tobytes() for x in tail) \
                            or not all(a == 0 or a != a for a in A[t + 1:, j]):
                        sim.fail("C12.rows_after_the_end_of_the_episode_are_not_padding",
                                 {**ctx, "repetition": j, "ended_after_step": t, "final_gap": float(final),
                                  "tail": [float(x) for x in tail], "tail_actions": [float(a) for a in A[t + 1:, j]]})
                break
    return hidden_all


def run(sim: Sim) -> None:
    from incomplete_cooperative.evaluation import evaluate
    from incomplete_cooperative.run.model import GAP_FUNCTIONS, ModelInstance
    from incomplete_cooperative.solvers import SOLVERS
    thorough = sim.tier == "thorough"
    n = 3 if not sim.flip(1, 4, "n4") else 4
    cls = sim.pick(["SA", "SAM"], "class")
    comp_name = sim.pick(games.computers_for(cls, n), "computer")
    gap_name = sim.pick(sorted(GAP_FUNCTIONS), "gap")
    gap = GAP_FUNCTIONS[gap_name]
    solver_name = sim.pick(sorted(SOLVERS), "solver")
    reps = 1 + sim.choose(24 if thorough else 12, "repetitions")
    limit = 1 + sim.choose(5 if n == 3 else 3, "limit")
    budget = None if not sim.flip(1, 3, "budget?") else 1 + sim.choose(4, "budget")
    seed = sim.choose(2 ** 31, "seed")
    source = sim.pick_weighted([("A", 3), ("B", 2)], "env-source")
    continuous = sim.flip(2, 3, "continuous")
    key = sim.pick((CONT if continuous else DISCRETE)[cls], "key")
    harness_values = None
    if source == "A" and sim.flip(1, 3, "harness-games"):
        harness_values = [games.draw_game(sim, n, cls)[0] for _ in range(4 + sim.choose(5, "n-values"))]
        distinct = len({v.tobytes() for v in harness_values}) == len(harness_values)
        continuous = False  # a replaying list source may legitimately repeat games
        key = None
    sim.probe("source_" + source)
    random_solver = solver_name == "random"
    if random_solver:
        sim.probe("random_solver")
    ctx = {"n": n, "computer": comp_name, "gap": gap_name, "solver": solver_name, "repetitions": reps, "limit": limit,
           "budget": budget, "seed": seed, "env_source": source, "key": key}
    sim.config.update(ctx)

    def one_eval(processes: int, image: str, gap_name_: str = gap_name, tear_at: int | None = None,
                 overlapped: bool = False):
        gap_ = GAP_FUNCTIONS[gap_name_]
        inst = ModelInstance(number_of_players=n, game_class=comp_name, game_generator=key or "factory",
                             gap_function=gap_name_, run_steps_limit=budget, parallel_environments=processes,
                             seed=seed, unique_name="sim")
        solver = SOLVERS[solver_name](inst)
        if source == "A":
            factory = pm.PrivateEnvFactory(n, comp_name, gap_, budget, seed, key=key, values_list=harness_values)
        else:
            factory = pm.TaggingEnvFactory(inst)
        pm.CHANNEL.clear()
        with simpool.installed(sim, image, cpu_count=4):
            if tear_at is not None:
                return seams.run_torn(lambda: evaluate(solver.next_step, factory, reps, limit, gap_, processes,
                                                       pm.record_reset), tear_at)
            if overlapped:
                # another caller thread runs an evaluation of its own (other solver, other games, other limit, no
                # hidden randomness) while the judged one runs; pre-emption between package lines as the tape says
                n2 = sim.pick([3, 4], "other-eval-n")
                vals2 = [games.draw_game(sim, n2, "SA")[0] for _ in range(2)]
                factory2 = pm.PrivateEnvFactory(n2, "superadditive", GAP_FUNCTIONS["l1_norm"], None, 0, values_list=vals2)
                solver2 = SOLVERS[sim.pick(["largest", "greedy"], "other-eval-solver")](ModelInstance(
                    number_of_players=n2, seed=1, unique_name="sim-other"))
                reps2, limit2 = 1 + sim.choose(3, "other-eval-reps"), 1 + sim.choose(3, "other-eval-limit")

                def other_evaluation():
                    try:
                        evaluate(solver2.next_step, factory2, reps2, limit2, GAP_FUNCTIONS["l1_norm"], 1)
                    except Exception:  # not judged
                        pass
                E, A = simthreads.interleave(sim, [
                    lambda: evaluate(solver.next_step, factory, reps, limit, gap_, processes, pm.record_reset),
                    other_evaluation])[0]
            else:
                E, A = evaluate(solver.next_step, factory, reps, limit, gap_, processes, pm.record_reset)
        return np.array(E), np.array(A), list(pm.CHANNEL)

    prelude.warm_process(sim)
    if sim.flip(1, 5, "earlier-evaluation-interrupted"):
        # an earlier evaluation in this process was cancelled half-way (Ctrl-C / error in a worker) and the caller went on
        p0 = 1 + sim.choose(4, "torn-processes")
        with sim.guard("C12.evaluate_raised"):
            if one_eval(p0, sim.pick(["fork", "fresh"], "torn-image"), tear_at=1 + sim.choose(3000, "tear-at")) is True:
                sim.fault("evaluation_interrupted", p0)
                sim.probe("evaluation_after_an_interrupted_one")
    if sim.flip(1, 4, "other-gap-first"):
        # a paired comparison: the same seeded configuration was evaluated under another gap function before
        other = sim.pick([g for g in sorted(GAP_FUNCTIONS) if g != gap_name], "other-gap")
        sim.op("evaluate-other-gap", other)
        with sim.guard("C12.evaluate_raised"):
            Eo, Ao, cho = one_eval(1 + sim.choose(3, "other-gap-processes"), "fork", gap_name_=other)
        replay_trajectories(sim, Eo, Ao, cho, n, comp_name, GAP_FUNCTIONS[other], budget, reps, limit,
                            {**ctx, "gap": other, "pass": "other gap first"})
        sim.probe("same_configuration_under_two_gap_functions")
    sim.op("evaluate", 1)
    overlapped = sim.flip(1, 6, "overlapping-evaluation")
    with sim.guard("C12.evaluate_raised"):
        E1, A1, ch1 = one_eval(1, "fork", overlapped=overlapped)
    if overlapped:
        sim.probe("evaluation_overlapped_with_another_threads_evaluation")
    hidden1 = replay_trajectories(sim, E1, A1, ch1, n, comp_name, gap, budget, reps, limit, {**ctx, "processes": 1})
    if continuous:
        check_independent(sim, hidden1, {**ctx, "processes": 1}, source, random_solver, 1)
    for p, image in pm.pool_configs(sim, 2 + sim.choose(2, "n-configs")):
        sim.probe(image + "_image")
        sim.op("evaluate", p, image)
        sim.mutations += 1
        with sim.guard("C12.evaluate_raised"):
            E, A, ch = one_eval(p, image)
        c = {**ctx, "processes": p, "image_model": image}
        hidden = replay_trajectories(sim, E, A, ch, n, comp_name, gap, budget, reps, limit, c)
        sim.checked()
        if E.tobytes() != E1.tobytes() or A.tobytes() != A1.tobytes() or E.shape != E1.shape:
            cols = [j for j in range(reps) if E[:, j].tobytes() != E1[:, j].tobytes() or A[:, j].tobytes() != A1[:, j].tobytes()]
            sim.fail("C12.result_depends_on_number_of_worker_processes",
                     {**c, "differing_repetitions": cols[:12],
                      "distinct_hidden_games": len({h.tobytes() for h in hidden}),
                      "distinct_hidden_games_sequential": len({h.tobytes() for h in hidden1})},
                     signature={"clause": "parallelism_invariance", "env_source": source,
                                "solver_random": random_solver, "processes_gt_1": True})
        if continuous:
            check_independent(sim, hidden, c, source, random_solver, p)
    # calibration of the stub against the real pool (deterministic configurations only)
    if source == "A" and not random_solver and sim.flip(1, 6 if not thorough else 3, "calibrate"):
        p = 2 + sim.choose(2, "calib-p")
        with sim.guard("C12.evaluate_raised"):
            Es, As, _ = one_eval(p, "fork")
            inst = ModelInstance(number_of_players=n, game_class=comp_name, game_generator=key or "factory",
                                 gap_function=gap_name, run_steps_limit=budget, seed=seed, unique_name="sim")
            solver = SOLVERS[solver_name](inst)
            factory = pm.PrivateEnvFactory(n, comp_name, gap, budget, seed, key=key, values_list=harness_values)
            with seams.allow_escape():
                Er, Ar = evaluate(solver.next_step, factory, reps, limit, gap, p, pm.record_reset)
        sim.event("calibration", p, np.array(Er), np.array(Ar))
        if np.array(Er).tobytes() != Es.tobytes() or np.array(Ar).tobytes() != As.tobytes():
            from ..core import HarnessError
            raise HarnessError(f"SimPool disagrees with the real multiprocessing.Pool at processes={p}: {ctx}")
        sim.validated_against_impl += 1
        sim.probe("calibrated_against_real_pool")


def check_independent(sim: Sim, hidden: list[np.ndarray], ctx: dict, source: str, random_solver: bool, p: int) -> None:
    sim.checked()
    distinct = len({h.tobytes() for h in hidden})
    if distinct != len(hidden):
        sim.fail("C12.repetitions_replay_one_anothers_hidden_game",
                 {**ctx, "repetitions": len(hidden), "distinct_hidden_games": distinct},
                 signature={"clause": "independent_repetitions", "env_source": source,
                            "solver_random": random_solver, "processes_gt_1": p > 1})
