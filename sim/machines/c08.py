"""C08 - bounds depend only on current knowledge: idempotent, order-free, undoable.

Oracle: differential against *no history*.  After every completed compute at a
knowledge set K (containing the minimal information) the long-lived object must
be bit-identical to a brand-new object that was told exactly K and computed
once.  At environment level step(a); unstep(a) must restore the whole public
state bit for bit at every reachable state.
"""
from __future__ import annotations

import os

import numpy as np

from .. import em, games, gm
from .. import prelude
from ..core import Sim

LEVEL = "exploration"
RULE = ("Each run is one seeded history (<= 40 operations: set / reveal / un-reveal / unset / bulk set / bulk "
        "reset / compute, with scribbled bounds, recomputes torn by a simulated KeyboardInterrupt and memo "
        "evictions as faults) on one long-lived game object, or one environment session of step / unstep / "
        "solver probes; a run is non-trivial if at least one oracle comparison happened after at least one "
        "mutation, distinct = distinct event-log digests.")
STATE_MEASURE = "distinct (n, computer, knowledge bitmask) at which object == fresh object was evaluated"
REAL_VS_STUB = {"real": ["incomplete_cooperative.game", "bounds", "coalitions", "coalition_ids", "icg_gym",
                         "norms", "exploitability", "solvers.greedy (probe pattern)"],
                "stub": [], "seams": ["sys.settrace interrupt injector", "functools cache eviction"]}
ASSUMPTIONS = ["interrupts land between Python lines of package code, not inside numpy calls",
               "bounds are only compared after a completed compute at K containing the minimal information"]
PROBES = ["computes_interleaved_in_two_threads", "large_n", "oracle_computed_in_a_fresh_process", "same_unknown_ids_at_another_size", "torn_then_recomputed", "two_histories_same_K", "unstep_after_2_steps", "scribble_then_compute",
          "evict_then_compute"]
TIERS = {
    "quick": {"runs": 60000, "wall": 40, "batch": 32, "shrink_s": 40},
    "thorough": {"runs": 10000000, "wall": 900, "batch": 48, "shrink_s": 120},
}


def preload() -> None:
    import incomplete_cooperative.bounds  # noqa: F401
    import incomplete_cooperative.icg_gym  # noqa: F401
    games.gap_functions()


def compare_fresh(sim: Sim, h: gm.GameHarness, clause: str, pristine: bool = False) -> None:
    if pristine:
        sim.probe("oracle_computed_in_a_fresh_process")
        f = games.fresh_pristine(h.n, h.comp, list(h.kv), _values_of(h))
    else:
        f = games.fresh(h.n, h.comp, list(h.kv), _values_of(h))
    a, b = games.snapshot(h.g), games.snapshot(f)
    sim.state(h.n, h.comp_name, h.mask())
    sim.checked()
    if a != b:
        ka, la, ua = games.arrays(h.g)
        kb, lb, ub = games.arrays(f)
        bad = [int(i) for i in np.nonzero((ka != kb) | (la != lb) | (ua != ub))[0]]
        sim.fail(clause, {"n": h.n, "computer": h.comp_name, "known": sorted(h.kv), "differs_at": bad[:8],
                          "history_obj": [[float(la[i]), float(ua[i])] for i in bad[:8]],
                          "fresh_obj": [[float(lb[i]), float(ub[i])] for i in bad[:8]]})


def _values_of(h: gm.GameHarness) -> np.ndarray:
    v = np.array(h.values, dtype=np.float64)
    for i, x in h.kv.items():
        v[i] = x
    return v


def run_object(sim: Sim) -> None:
    thorough = sim.tier == "thorough"
    n = 3 + sim.choose(4 if thorough else 3, "n")
    from incomplete_cooperative.bounds import BOUNDS
    names = sorted(BOUNDS)
    if n > 3:
        names = [k for k in names if k not in ("sam_apx_100", "sam_apx_1000")]
    elif not sim.flip(1, 6, "heavy-computer"):
        names = [k for k in names if k not in ("sam_apx_100", "sam_apx_1000")]
    if n >= 6:
        names = [k for k in names if k in ("superadditive_cached", "sam_apx_1", "superadditive")]
    comp_name = sim.pick(names, "computer")
    cls = sim.pick(["ANY", "SA", "SAM"], "class")
    values, exact = games.draw_game(sim, n, cls)
    sim.config.update(n=n, computer=comp_name, cls=cls, exact=exact, machine="object")
    prelude.warm_process(sim)
    h = gm.GameHarness(sim, n, comp_name, values)
    h.reset_minimal(sim.subset(h.explorable, "start-extra", 1, 4))
    seen_masks: dict[int, int] = {}
    steps = 6 + sim.choose(30 if n <= 4 else 14, "steps")
    for _ in range(steps):
        if sim.flip(1, 16, "other-use"):
            prelude.warm_process(sim, label="midrun")
        if h.has_minimal() and n <= 5 and sim.flip(1, 14, "threads"):
            # another thread of the process recomputes a different game object with the same computer meanwhile
            from .. import simthreads
            n2 = sim.pick([n, max(3, n - 1), min(5, n + 1)], "sibling-n")
            v2, _ = games.draw_game(sim, n2, cls)
            h2 = gm.GameHarness(sim, n2, comp_name, v2, tag="sibling")
            with sim.guard("C08.operation_raised"):
                h2.reset_minimal(sim.subset(h2.explorable, "sibling-extra", 1, 4))
                sim.op("concurrent-computes", n, n2)
                simthreads.interleave(sim, [h.g.compute_bounds, h2.g.compute_bounds])
                h.dirty = h2.dirty = False
            sim.probe("computes_interleaved_in_two_threads")
            compare_fresh(sim, h, "C08.history_differs_from_fresh_object")
            compare_fresh(sim, h2, "C08.history_differs_from_fresh_object")
        with sim.guard("C08.operation_raised"):
            was_torn = h.torn
            ops_before = dict(sim.ops)
            faults_before = dict(sim.faults)
            kind = gm.random_history_step(sim, h, truthful=(cls != "ANY") and sim.flip(1, 2, "truthful"),
                                          allow_break_minimal=True)
            if kind == "compute" and not h.dirty:
                if sim.faults.get("torn_compute", 0) > faults_before.get("torn_compute", 0):
                    sim.probe("torn_then_recomputed")
                if sim.ops.get("scribble", 0) > ops_before.get("scribble", 0):
                    sim.probe("scribble_then_compute")
                if sim.faults.get("memo_evict", 0) > faults_before.get("memo_evict", 0):
                    sim.probe("evict_then_compute")
                compare_fresh(sim, h, "C08.history_differs_from_fresh_object", pristine=sim.flip(1, 6, "pristine-oracle"))
                if len(h.unknown()) <= 3 and h.n < 6 and sim.flip(1, 3, "mirror"):
                    mirror_other_size(sim, h)
                m = h.mask()
                if m in seen_masks and seen_masks[m] != sim.mutations:
                    sim.probe("two_histories_same_K")
                seen_masks[m] = sim.mutations
                if sim.flip(1, 3, "idempotence"):
                    h.compute()
                    compare_fresh(sim, h, "C08.recompute_not_idempotent")
    # bounded progress: after the last fault one completed compute restores the function of K
    with sim.guard("C08.operation_raised"):
        if not h.has_minimal():
            ids = [i for i in h.minimal if i not in h.kv]
            h.bulk_set(ids, [float(h.values[i]) for i in ids])
        h.compute()
        compare_fresh(sim, h, "C08.history_differs_from_fresh_object", pristine=True)


def mirror_other_size(sim: Sim, h: gm.GameHarness) -> None:
    """The same set of unknown coalition ids at another player count, in the same process.

    A game with one more player in which every coalition containing the new player is known has exactly the
    unknown-id set of `h`; anything the package remembers per "unknown set" without the player count collides."""
    n2 = h.n + 1
    unknown = h.unknown()
    cls = gm.class_for(h.comp_name)
    v2, _ = games.draw_game(sim, n2, cls if cls == "SAM" else "SA")
    known2 = [i for i in range(2 ** n2) if i not in unknown]
    sim.op("mirror-other-size", n2, unknown)
    sim.probe("same_unknown_ids_at_another_size")
    with sim.guard("C08.operation_raised"):
        g2 = games.fresh(n2, h.comp, known2, v2)
        f2 = games.fresh_pristine(n2, h.comp, known2, v2)
    sim.checked()
    if games.snapshot(g2) != games.snapshot(f2):
        ka, la, ua = games.arrays(g2)
        kb, lb, ub = games.arrays(f2)
        bad = [int(i) for i in np.nonzero((la != lb) | (ua != ub))[0]][:8]
        sim.fail("C08.bounds_depend_on_earlier_games_in_the_process",
                 {"n": n2, "computer": h.comp_name, "unknown": unknown, "earlier_game_n": h.n, "differs_at": bad,
                  "this_process": [[float(la[i]), float(ua[i])] for i in bad],
                  "fresh_process": [[float(lb[i]), float(ub[i])] for i in bad]})


def run_env(sim: Sim) -> None:
    """step(a); unstep(a) restores bounds, gap, reward and observation exactly."""
    n = 3 + sim.choose(3, "n")
    cls = sim.pick(["SA", "SAM", "ANY"], "class")
    names = games.computers_for("SAM" if cls == "SAM" else "SA", n, heavy_ok=sim.flip(1, 8, "heavy"))
    if cls == "ANY":
        from incomplete_cooperative.bounds import BOUNDS
        names = [k for k in sorted(BOUNDS) if k not in ("sam_apx_100", "sam_apx_1000")]
    comp_name = sim.pick(names, "computer")
    gaps = games.gap_functions()
    gap_name = sim.pick(sorted(gaps), "gap")
    values, exact = games.draw_game(sim, n, cls)
    sim.config.update(n=n, computer=comp_name, cls=cls, gap=gap_name, machine="env")
    prelude.warm_process(sim)
    with sim.guard("C08.operation_raised"):
        env = em.make_env(n, comp_name, em.ListSource([values], n), gaps[gap_name], None)
    depth = 0
    taken: list[int] = []
    steps = 4 + sim.choose(16, "steps")
    for _ in range(steps):
        valid = [int(a) for a in np.nonzero(env.action_masks())[0]]
        what = sim.pick_weighted([("probe", 4), ("step", 3), ("unstep", 2)], "env-op")
        with sim.guard("C08.operation_raised"):
            if what == "probe" and valid:
                a = sim.pick(valid, "probe-action")
                before = em.env_snapshot(env)
                sim.op("step", a)
                env.step(a)
                sim.op("unstep", a)
                env.unstep(a)
                after = em.env_snapshot(env)
                sim.checked()
                sim.state(n, comp_name, tuple(sorted(taken)))
                if len(taken) >= 2:
                    sim.probe("unstep_after_2_steps")
                if before != after:
                    sim.fail("C08.step_unstep_not_exact_undo",
                             {"n": n, "computer": comp_name, "gap": gap_name, "revealed": sorted(taken),
                              "action": a, "fields": em.diff_snapshot(before, after)})
            elif what == "step" and valid:
                a = sim.pick(valid, "step-action")
                sim.op("step", a)
                env.step(a)
                taken.append(a)
            elif what == "unstep" and taken:
                a = taken.pop(sim.choose(len(taken), "unstep-which"))
                sim.op("unstep", a)
                env.unstep(a)
                # the state after undoing must equal a fresh environment told the remaining set
                sim.checked()
                exp_ids = games.minimal_ids(n) + [env.explorable_coalitions[t].id for t in taken]
                f = games.fresh(n, games.computer(comp_name), exp_ids, values)
                if games.snapshot(env.incomplete_game) != games.snapshot(f):
                    sim.fail("C08.unstep_state_differs_from_fresh", {"n": n, "computer": comp_name,
                                                                     "revealed": sorted(taken), "undone": a})


def run_large(sim: Sim) -> None:
    """Rare: n = 7..10 with a cached computer, a short knowledge-decreasing history, fresh-process oracle."""
    n = 7 + sim.choose(4, "large-n")
    comp_name = sim.pick(["superadditive_cached", "sam_apx_1"], "large-computer")
    cls = "SAM" if comp_name.startswith("sam") else sim.pick(["SA", "ANY"], "large-class")
    rng = sim.np_rng("large-values")
    if cls == "SAM":
        w = rng.integers(0, 10, (3, n)).astype(np.float64)
        member = np.array([[(s >> i) & 1 for i in range(n)] for s in range(2 ** n)], dtype=np.float64)
        values = -np.max(member @ w.T, axis=1)
        values[0] = 0.0
    elif cls == "SA":
        values = games.sa_closure(rng.integers(-6, 7, 2 ** n).astype(np.float64), n)
    else:
        values = rng.integers(-20, 21, 2 ** n).astype(np.float64)
        values[0] = 0.0
    sim.config.update(n=n, computer=comp_name, cls=cls, machine="large")
    sim.probe("large_n")
    h = gm.GameHarness(sim, n, comp_name, values)
    with sim.guard("C08.operation_raised"):
        h.reset_minimal([e for e in h.explorable if rng.random() < 0.05])
        h.compute()
        for _ in range(2 + sim.choose(4, "large-ops")):
            kn = h.known_nonminimal()
            unk = [i for i in h.explorable if i not in h.kv]
            if kn and sim.flip(1, 2, "large-unreveal"):
                h.unreveal(sim.pick(kn, "which"))
            elif unk:
                h.reveal(sim.pick(unk, "which"))
            h.compute()
            if sim.flip(1, 3, "large-recompute"):
                h.compute()
    compare_fresh(sim, h, "C08.history_differs_from_fresh_object", pristine=True)


def run(sim: Sim) -> None:
    if sim.choose(400 if sim.tier == "quick" else 80, "large-mode") == 1 or os.environ.get("VERIF_FORCE_LARGE"):
        return run_large(sim)
    if sim.choose(4, "machine") == 3:
        run_env(sim)
    else:
        run_object(sim)
