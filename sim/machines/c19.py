"""C19 - saved results read back faithfully and are never overwritten.

Store machine over SimFS with faults disabled but buffering knobs varied (the statement
has no fault in it; crashes are C20): histories of saves against a reference model
(ordered dict name -> first entry saved under it), plus end-to-end runs of the solve /
greedy / ugreedy / best_states commands through the real argument parser under SimPool
and SimFS with the Output captured at the call boundary.
"""
from __future__ import annotations

import os
from pathlib import Path
from typing import Any

import numpy as np

from .. import seams, sm, simpool
from .. import prelude
from ..core import Sim
from ..simfs import SimFS

LEVEL = "exploration"
RULE = ("Each run is either a history of 2..9 save_json / save calls into one model directory (tape-drawn names "
        "incl. repeats / empty / unicode, matrices with NaN, +-inf, negative, 1e308, float32 input, int / NaN-padded "
        "/ 3-D action arrays, metadata with non-JSON values; text/buffer knobs and short raw writes varied) checked "
        "after every save against the reference model through both readers, or one end-to-end command (solve, "
        "greedy, ugreedy, best_states) through __main__.main under SimPool + SimFS whose stored matrices are "
        "compared with what evaluate / the search returned. Non-trivial = read back after at least one save; "
        "distinct = distinct event-log digests.")
STATE_MEASURE = "distinct (number of entries in the file, repeated-name?, data shape, actions ndim) at read-back"
REAL_VS_STUB = {"real": ["run.save (Output, save_json, save, readers)", "run.solve / greedy / best_states commands",
                         "__main__ argument parser", "evaluation", "gameplay", "json"],
                "stub": ["matplotlib savers (no-op)", "multiprocessing.Pool -> SimPool"],
                "seams": ["SimFS raw layer (fault-free, buffering / short-write knobs)"]}
ASSUMPTIONS = ["metadata is compared key by key: JSON-native values equal, anything else must come back as a string",
               "matrices compared element-wise with NaN == NaN; shapes identical; data dtype float64"]
PROBES = ["history_contains_a_dead_save_attempt", "real_data_plot_saver", "save_from_another_process", "repeated_name", "nan_in_data", "inf_in_data", "float32_input", "actions_3d", "non_json_metadata",
          "e2e_solve", "e2e_greedy", "e2e_best_states", "history_5plus", "short_raw_writes"]
TIERS = {
    "quick": {"runs": 20000, "wall": 40, "batch": 8, "shrink_s": 40},
    "thorough": {"runs": 3000000, "wall": 1200, "batch": 12, "shrink_s": 150},
}


def preload() -> None:
    import incomplete_cooperative.__main__  # noqa: F401
    import incomplete_cooperative.run.save  # noqa: F401
    simpool.record_import_scalars()


def _noop_saver(path, unique_name, output) -> None:
    return None


def native_equal(orig: Any, got: Any) -> bool:
    if orig is None or isinstance(orig, (bool, str)):
        return got == orig and type(got) is type(orig)
    if isinstance(orig, (int, np.integer)) and not isinstance(orig, bool):
        return isinstance(got, int) and got == int(orig)
    if isinstance(orig, (float, np.floating)):
        return isinstance(got, (float, int)) and (got == float(orig) or (got != got and orig != orig))
    if isinstance(orig, (list, tuple)):
        return isinstance(got, list) and len(got) == len(orig) and all(native_equal(a, b) for a, b in zip(orig, got))
    if isinstance(orig, dict):
        return isinstance(got, dict) and set(got) == {str(k) for k in orig} and all(native_equal(v, got[str(k)]) for k, v in orig.items())
    return isinstance(got, str)  # non-JSON value: "up to JSON stringification"


def compare_output(sim: Sim, name: str, orig, got, ctx: dict, via: str) -> None:
    d0 = np.asarray(orig.data)
    d1 = got.data
    c = {**ctx, "name": name, "via": via}
    if not isinstance(d1, np.ndarray) or d1.dtype != np.float64 or d1.shape != d0.shape:
        sim.fail("C19.data_shape_or_dtype_changed", {**c, "saved": [list(d0.shape), str(d0.dtype)],
                                                     "read": [list(np.shape(d1)), str(getattr(d1, "dtype", None))]})
    if not np.array_equal(d0.astype(np.float64), d1, equal_nan=True):
        bad = np.argwhere(~((d0.astype(np.float64) == d1) | (np.isnan(d0.astype(np.float64)) & np.isnan(d1))))
        sim.fail("C19.data_matrix_does_not_round_trip", {**c, "first_bad": bad[0].tolist(),
                                                         "saved": float(d0[tuple(bad[0])]), "read": float(d1[tuple(bad[0])])})
    a0 = np.asarray(orig.actions)
    a1 = np.asarray(got.actions)
    if a1.dtype.kind not in "iuf":
        sim.fail("C19.actions_do_not_read_back_as_numbers", {**c, "dtype": str(a1.dtype)})
    if a1.shape != a0.shape:
        sim.fail("C19.actions_shape_changed", {**c, "saved": list(a0.shape), "read": list(a1.shape)})
    if not np.array_equal(a0.astype(np.float64), a1.astype(np.float64), equal_nan=True):
        sim.fail("C19.action_matrix_does_not_round_trip", c)
    md0 = {k: v for k, v in vars(orig.parsed_args).items() if k != "func"}
    md1 = vars(got.parsed_args)
    if set(md1) != set(md0) | {"func", "run_type"}:
        sim.fail("C19.metadata_keys_changed", {**c, "saved": sorted(md0), "read": sorted(md1)})
    for k, v in md0.items():
        if not native_equal(v, md1[k]):
            sim.fail("C19.metadata_value_does_not_round_trip", {**c, "key": k, "saved": repr(v), "read": repr(md1[k])})


def read_back_and_check(sim: Sim, save_mod, path: Path, model: dict, ctx: dict) -> None:
    sim.checked()
    with sim.guard("C19.reader_raised"):
        outs = save_mod.get_outputs_from_file(path)
    if list(outs) != list(model):
        sim.fail("C19.names_in_file_differ_from_names_saved", {**ctx, "saved": list(model), "in_file": list(outs)})
    for name, orig in model.items():
        compare_output(sim, name, orig, outs[name], ctx, "get_outputs_from_file")
    name = list(model)[sim.choose(len(model), "from_file-which")]
    with sim.guard("C19.reader_raised"):
        one = save_mod.Output.from_file(path, name)
    compare_output(sim, name, model[name], one, ctx, "Output.from_file")


def run(sim: Sim) -> None:
    from incomplete_cooperative.run import save as save_mod
    buf = sim.pick([-1, 8192, 300, 17, 1], "buffer")
    fs = SimFS(sim, buffer_size=buf, write_through=bool(sim.choose(2, "write-through")))
    fs.short_every = sim.pick([0, 0, 2, 5], "short-every")
    fs.log_to_sim = False
    if fs.short_every:
        sim.probe("short_raw_writes")
    saved_savers = dict(save_mod.SAVERS)
    prelude.warm_process(sim)
    try:
        fs.install()
        for k in list(save_mod.SAVERS):
            if k != "data.json":
                save_mod.SAVERS[k] = _noop_saver
        if sim.flip(1, 4, "end-to-end"):
            run_e2e(sim, fs, save_mod)
        else:
            run_history(sim, fs, save_mod)
    finally:
        save_mod.SAVERS.clear()
        save_mod.SAVERS.update(saved_savers)
        fs.cleanup()


def run_history(sim: Sim, fs: SimFS, save_mod) -> None:
    fanout = sim.flip(1, 3, "fanout")
    model_dir = Path(fs.root) / "m" if fanout else Path(fs.root)
    path = model_dir / "data.json"
    model: dict[str, Any] = {}
    ctx = {"buffer": fs.buffer_size, "write_through": fs.write_through, "fanout": fanout}
    sim.config.update(ctx)
    n_saves = 2 + sim.choose(8, "n-saves")
    if sim.flip(1, 8, "long-history"):
        n_saves = 10 + sim.choose(12, "n-saves-many")
    if n_saves >= 5:
        sim.probe("history_5plus")
    procs = seams.SimProcesses(sim)
    nprocs = 1 + sim.choose(3, "processes-sharing-the-directory")
    real_plots = fanout and sim.flip(1, 5, "real-data-plot-saver")
    if real_plots:
        sim.probe("real_data_plot_saver")

    def stub_savers() -> None:
        for k in list(save_mod.SAVERS):  # plot savers are stubbed (the data_plots one is real in some runs)
            if k != "data.json" and not (real_plots and k == "data_plots"):
                save_mod.SAVERS[k] = _noop_saver
            elif real_plots and k == "data_plots":
                save_mod.SAVERS[k] = save_mod.save_data_plot

    stub_savers()
    for _ in range(n_saves):
        if sim.flip(1, 8, "a-save-attempt-dies"):
            # a save attempt by some process is killed (or interrupted) half-way; the history goes on afterwards
            from ..core import SimInterrupt, SimKill
            from ..simfs import Plan
            name_x = sm.draw_name(sim, list(model), want_new=True)
            out_x = sm.draw_output(sim, special=False, max_rows=6, max_cols=6, large_den=0 if real_plots else 3)
            kind_x = sim.pick(["kill_before", "kill_after", "kill_partial", "interrupt"], "attempt-fault")
            fs.begin_op(Plan(kind_x, sim.choose(6, "attempt-fault-at"), sim.choose(4000, "attempt-offset")))
            try:
                if fanout:
                    save_mod.save(model_dir, name_x, out_x)
                else:
                    save_mod.save_json(path, name_x, out_x)
                outcome = "completed"
            except SimKill:
                outcome = "killed"
            except SimInterrupt:
                outcome = "interrupted"
            except Exception as ex:
                outcome = "raised:" + type(ex).__name__
            fs.heal()
            sim.fault("save_attempt_" + outcome.split(":")[0], kind_x)
            if outcome == "killed":
                procs.restart()
                stub_savers()
            okp, parsed = sm.try_parse(fs.read_real(os.path.relpath(str(path), fs.root)))
            if okp and parsed is not None and name_x in parsed and name_x not in model:
                model[name_x] = out_x  # the attempt got as far as publishing the new file
            sim.probe("history_contains_a_dead_save_attempt")
        # the saves of a history may come from several processes (each CLI run is one) sharing the directory
        if nprocs > 1:
            pid = sim.choose(nprocs, "saving-process")
            if pid != procs.current:
                sim.probe("save_from_another_process")
            procs.switch(pid)
            if sim.flip(1, 6, "process-restart"):
                procs.restart()
            stub_savers()
        name = sm.draw_name(sim, list(model))
        out = sm.draw_output(sim, special=not real_plots, max_rows=6, max_cols=6)  # the real plot saver gets finite data
        d = np.asarray(out.data)
        if d.dtype == np.float32:
            sim.probe("float32_input")
        if np.isnan(d).any():
            sim.probe("nan_in_data")
        if np.isinf(d).any():
            sim.probe("inf_in_data")
        if np.asarray(out.actions).ndim == 3:
            sim.probe("actions_3d")
        if any(k in vars(out.parsed_args) for k in ("thing", "model_dir")):
            sim.probe("non_json_metadata")
        repeated = name in model
        import copy
        pristine = copy.deepcopy(out)  # what the caller computed; savers must store exactly this
        before = fs.read_real(os.path.relpath(str(path), fs.root))
        sim.op("save", name, repeated, list(d.shape))
        fs.begin_op()
        with sim.guard("C19.save_raised"):
            if fanout:
                save_mod.save(model_dir, name, out)
            else:
                save_mod.save_json(path, name, out)
        after = fs.read_real(os.path.relpath(str(path), fs.root))
        if repeated:
            sim.probe("repeated_name")
            if after != before:
                sim.fail("C19.saving_under_an_existing_name_changed_the_file", {**ctx, "name": name})
        else:
            model[name] = pristine
        if not (np.array_equal(np.asarray(out.data), np.asarray(pristine.data), equal_nan=True)
                and np.array_equal(np.asarray(out.actions, dtype=np.float64), np.asarray(pristine.actions, dtype=np.float64), equal_nan=True)):
            sim.fail("C19.saving_modified_the_callers_matrices", {**ctx, "name": name})
        sim.state(len(model), repeated, d.shape, np.asarray(out.actions).ndim)
        read_back_and_check(sim, save_mod, path, model, {**ctx, "entries": len(model), "last_saved": name})


# ------------------------------------------------------------------- end to end
def run_e2e(sim: Sim, fs: SimFS, save_mod) -> None:
    import incomplete_cooperative.__main__ as main_mod
    from incomplete_cooperative.run import best_states as bs_mod
    from incomplete_cooperative.run import greedy as greedy_mod
    from incomplete_cooperative.run import solve as solve_mod
    cmd = sim.pick(["solve", "greedy", "ugreedy", "best_states"], "command")
    n = 3
    cls = sim.pick(["SA", "SAM"], "class")
    game_class = sim.pick(["superadditive", "superadditive_cached"] + (["sam_apx_1"] if cls == "SAM" else []), "game-class")
    gen = sim.pick(["factory", "noisy_factory", "graph_random", "factory_cheerleader"] if cls == "SA"
                   else ["xos", "xs", "k_budget_generator", "covg_fn_generator"], "generator")
    limit = 1 + sim.choose(4, "limit")
    if "greedy" in cmd:
        limit = min(limit, 3)  # expected-greedy needs a step limit <= number of explorable coalitions (3 at n = 3)
    p = 1 + sim.choose(5, "processes")
    seed = sim.choose(2 ** 31, "seed")
    gapf = sim.pick(["exploitability", "l1_norm", "l2_norm", "linf_norm"], "gap")
    model_dir = Path(fs.root) / "model"
    names = [sm.draw_name(sim, [], want_new=True) or "run"]
    second = sim.flip(1, 2, "second-run")
    if second:
        names.append(sm.draw_name(sim, names) or "run")
    captured: list[dict] = []
    produced: list[Any] = []
    real_save = save_mod.save
    real = {"solve.save": solve_mod.save, "greedy.save": greedy_mod.save, "bs.save": bs_mod.save,
            "evaluate": solve_mod.evaluate, "ggr": greedy_mod.get_greedy_rewards, "gbe": bs_mod.get_best_exploitability}

    def capture_save(model_path, unique_name, output):
        captured.append({"dir": model_path, "name": unique_name, "output": output})
        return real_save(model_path, unique_name, output)

    def wrap(fn):
        def w(*a, **k):
            r = fn(*a, **k)
            produced.append(r)
            return r
        return w

    ctx = {"command": cmd, "generator": gen, "game_class": game_class, "limit": limit, "processes": p, "gap": gapf}
    sim.config.update(ctx)
    sim.probe("e2e_" + ("greedy" if "greedy" in cmd else cmd))
    solve_mod.save = greedy_mod.save = bs_mod.save = capture_save
    solve_mod.evaluate = wrap(real["evaluate"])
    greedy_mod.get_greedy_rewards = wrap(real["ggr"])
    bs_mod.get_best_exploitability = wrap(real["gbe"])
    model: dict[str, Any] = {}
    try:
        for i, name in enumerate(names):
            args = ["prog", "--number-of-players", str(n), "--game-class", game_class, "--game-generator", gen,
                    "--run-steps-limit", str(limit), "--model-dir", str(model_dir), "--unique-name", name,
                    "--seed", str(seed + i), "--parallel-environments", str(p), "--gap-function", gapf, cmd]
            if cmd == "solve":
                reps = 1 + sim.choose(4, "reps")
                args += ["--solve-repetitions", str(reps), "--solver", sim.pick(["greedy", "largest", "random", "greedy_worst"], "solver")]
            elif cmd in ("greedy", "ugreedy"):
                args += ["--sampling-repetitions", str(1 + sim.choose(3, "reps"))]
            else:
                args += ["--sampling-repetitions", str(1 + sim.choose(2, "reps")), "--eval-repetitions", str(1 + sim.choose(2, "ereps"))]
            captured.clear()
            produced.clear()
            path = model_dir / "data.json"
            before = fs.read_real(os.path.relpath(str(path), fs.root))
            sim.op("command", cmd, name)
            fs.begin_op()
            with sim.guard("C19.command_raised"):
                with simpool.installed(sim, sim.pick(["fork", "fresh"], "image")):
                    main_mod.main(main_mod.get_argument_parser(), args)
            sim.checked()
            if len(captured) != 1 or captured[0]["name"] != name:
                sim.fail("C19.command_did_not_save_exactly_once_under_its_name", {**ctx, "saves": [c["name"] for c in captured]})
            out = captured[0]["output"]
            # what is saved is what the evaluation / search produced
            if cmd == "solve":
                E, A = produced[0]
                same = np.array_equal(out.data, E, equal_nan=True) and np.array_equal(out.actions, A, equal_nan=True)
            elif cmd in ("greedy", "ugreedy"):
                E, chosen = produced[0]
                same = np.array_equal(out.data, E, equal_nan=True) and \
                    np.array_equal(np.asarray(out.actions), np.reshape(np.array(chosen), (len(chosen), 1)))
            else:
                E = np.hstack([r[0] for r in produced])
                same = np.array_equal(out.data, E, equal_nan=True)
                acts = np.asarray(out.actions)
                for rep, r in enumerate(produced):
                    for size, coal in enumerate(r[1]):
                        row = acts[size, rep]
                        same = same and list(row[:len(coal)]) == list(coal) and bool(np.isnan(row[len(coal):]).all())
            if not same:
                sim.fail("C19.saved_matrices_are_not_what_the_command_computed", {**ctx, "name": name})
            if np.asarray(out.data).shape[0] < 1 or np.asarray(out.data).shape[1] < 1:
                continue
            after = fs.read_real(os.path.relpath(str(path), fs.root))
            if name in model:
                sim.probe("repeated_name")
                if after != before:
                    sim.fail("C19.saving_under_an_existing_name_changed_the_file", {**ctx, "name": name})
            else:
                model[name] = out
            read_back_and_check(sim, save_mod, path, model, {**ctx, "entries": len(model), "last_saved": name})
            sim.state(len(model), name in model, np.asarray(out.data).shape, np.asarray(out.actions).ndim)
    finally:
        solve_mod.save, greedy_mod.save, bs_mod.save = real["solve.save"], real["greedy.save"], real["bs.save"]
        solve_mod.evaluate = real["evaluate"]
        greedy_mod.get_greedy_rewards = real["ggr"]
        bs_mod.get_best_exploitability = real["gbe"]
