"""C03 - cached and reference superadditive bound computers are interchangeable.

2..4 twin pairs of game objects with different player counts live in one simulated
process; each pair receives the identical operation history, the scheduler interleaves
operations *between* pairs, so the per-n memo of coalition structure is populated,
reused and evicted in every order.  Faults hit one twin only.
"""
from __future__ import annotations

import numpy as np

from .. import games, gm
from .. import prelude
from ..core import Sim

LEVEL = "exploration"
RULE = ("Each run holds 2..4 twin pairs (one object per computer) with different n in 2..6 (thorough ..8) and "
        "interleaves <= 50 operations between the pairs (identical history within a pair: reveal / un-reveal / set "
        "/ bulk reset / compute on games of class SA, SAM or arbitrary), with memo eviction at arbitrary points, a "
        "recompute torn on one twin only and bounds scribbled on one twin only; after every completed compute of a "
        "pair both objects are compared. Non-trivial = compared after a mutation; distinct = distinct event-log "
        "digests.")
STATE_MEASURE = "distinct (n, knowledge bitmask) at which the two computers were compared"
REAL_VS_STUB = {"real": ["bounds.compute_bounds_superadditive", "bounds.compute_bounds_superadditive_cached",
                         "functools.cache memo of coalition structure", "game"], "stub": [],
                "seams": ["scheduler interleaving objects of different n", "memo eviction", "interrupt injector"]}
ASSUMPTIONS = ["bit-identical in exact mode, within 1e-9*max(1,max|v|) in float mode (the property's wording)",
               "both computers are compared only at knowledge sets containing the minimal information"]
PROBES = ["two_objects_of_one_size", "computes_interleaved_in_two_threads", "two_sizes_interleaved", "evict_between_computes_same_n", "torn_on_one_twin", "scribble_on_one_twin",
          "n2_pair", "float_mode", "exact_mode"]
TIERS = {
    "quick": {"runs": 50000, "wall": 40, "batch": 24, "shrink_s": 40},
    "thorough": {"runs": 8000000, "wall": 900, "batch": 32, "shrink_s": 120},
}


def preload() -> None:
    import incomplete_cooperative.bounds  # noqa: F401


class Pair:
    def __init__(self, sim: Sim, n: int, values: np.ndarray, exact: bool, idx: int) -> None:
        self.n, self.exact, self.idx = n, exact, idx
        self.ref = gm.GameHarness(sim, n, "superadditive", values, tag=f"p{idx}.ref")
        self.cached = gm.GameHarness(sim, n, "superadditive_cached", values, tag=f"p{idx}.cached")
        self.computes = 0
        self.evicted_since_compute = False


def compare(sim: Sim, p: Pair) -> None:
    ka, la, ua = games.arrays(p.ref.g)
    kb, lb, ub = games.arrays(p.cached.g)
    sim.checked()
    sim.state(p.n, p.ref.mask())
    ctx = {"n": p.n, "known": sorted(p.ref.kv), "exact": p.exact}
    if not np.array_equal(ka, kb):
        sim.fail("C03.known_sets_differ", ctx)
    if p.exact:
        same = la.tobytes() == lb.tobytes() and ua.tobytes() == ub.tobytes()
    else:
        tol = games.tolerance(p.ref.values)
        same = bool(np.all(np.abs(la - lb) <= tol) and np.all(np.abs(ua - ub) <= tol))
    if not same:
        bad = [int(i) for i in np.nonzero((la != lb) | (ua != ub))[0]][:8]
        sim.fail("C03.cached_and_reference_bounds_differ",
                 {**ctx, "coalitions": bad, "reference": [[float(la[i]), float(ua[i])] for i in bad],
                  "cached": [[float(lb[i]), float(ub[i])] for i in bad]})


def concurrent_computes(sim: Sim, pairs: list) -> None:
    """Two threads of the process recompute the bounds of two *different* game objects at the same time
    (line-granular interleaving decided by the tape); afterwards each pair must still agree."""
    from .. import simthreads
    order = sim.shuffled(list(range(len(pairs))), "thread-pairs")[:2 + sim.choose(min(2, len(pairs) - 1), "n-threads")]
    chosen = [pairs[i] for i in order if pairs[i].ref.has_minimal()]
    if len(chosen) < 2:
        return
    which = sim.pick(["cached", "mixed"], "thread-computers")
    thunks = []
    for j, p in enumerate(chosen):
        h = p.cached if which == "cached" or j % 2 == 0 else p.ref
        thunks.append(h.g.compute_bounds)
    sim.op("concurrent-computes", [p.n for p in chosen], which)
    with sim.guard("C03.operation_raised"):
        simthreads.interleave(sim, thunks)
        for p in chosen:  # whatever the threads left behind, a completed compute of both twins must agree
            p.ref.compute()
            if which != "cached":
                p.cached.compute()
            p.cached.dirty = False
    sim.probe("computes_interleaved_in_two_threads")
    for p in chosen:
        if which == "cached":
            # the cached twin was computed by a thread that was pre-empted between lines: judge that result
            compare(sim, p)
        else:
            compare(sim, p)


def run(sim: Sim) -> None:
    thorough = sim.tier == "thorough"
    npairs = 2 + sim.choose(3, "pairs")
    sizes = sim.shuffled(list(range(2, 9 if thorough else 7)), "sizes")[:npairs]
    if sim.flip(1, 3, "two-objects-of-one-size"):  # two different game objects with the same player count
        sizes[1] = sizes[0]
        sim.probe("two_objects_of_one_size")
    pairs = []
    for idx, n in enumerate(sizes):
        cls = sim.pick(["SA", "ANY", "SAM"], "class")
        values, exact = games.draw_game(sim, n, cls)
        sim.probe("exact_mode" if exact else "float_mode")
        if n == 2:
            sim.probe("n2_pair")
        p = Pair(sim, n, values, exact, idx)
        with sim.guard("C03.operation_raised"):
            extra = sim.subset(p.ref.explorable, "start-extra", 1, 4)
            p.ref.reset_minimal(extra)
            p.cached.reset_minimal(extra)
        pairs.append(p)
    sim.config.update(sizes=sizes)
    prelude.warm_process(sim)
    budget = {2: 6, 3: 14, 4: 12, 5: 8, 6: 5, 7: 3, 8: 2}
    steps = sum(budget[p.n] for p in pairs)
    steps = 6 + sim.choose(min(steps, 44), "steps")
    last_pair = -1
    for _ in range(steps):
        if sim.flip(1, 16, "other-use"):
            prelude.warm_process(sim, label="midrun")
        if len(pairs) >= 2 and sim.flip(1, 10, "threads"):
            concurrent_computes(sim, pairs)
            continue
        pi = sim.choose(len(pairs), "which-pair")
        p = pairs[pi]
        if last_pair >= 0 and pairs[last_pair].n != p.n:
            sim.probe("two_sizes_interleaved")
        last_pair = pi
        with sim.guard("C03.operation_raised"):
            op = gm.draw_op(sim, p.ref, truthful=sim.flip(2, 3, "truthful"), allow_break_minimal=False)
            if sim.flip(1, 16, "evict?"):
                p.ref.evict()
                for q in pairs:
                    q.evicted_since_compute = True
            if op[0] == "compute" and sim.flip(1, 8, "fault?"):
                victim = p.cached if sim.flip(2, 3, "fault-on-cached") else p.ref
                f = sim.pick(["torn", "scribble"], "fault-kind")
                if f == "torn":
                    if victim.torn_compute():
                        sim.probe("torn_on_one_twin")
                else:
                    victim.scribble()
                    sim.fault("scribbled_bounds", victim.tag)
                    sim.probe("scribble_on_one_twin")
            gm.apply_op(p.ref, op)
            gm.apply_op(p.cached, op)
            if op[0] == "compute" and not p.ref.dirty and not p.cached.dirty:
                if p.computes and p.evicted_since_compute:
                    sim.probe("evict_between_computes_same_n")
                p.computes += 1
                p.evicted_since_compute = False
                compare(sim, p)
    for p in pairs:
        with sim.guard("C03.operation_raised"):
            p.ref.compute()
            p.cached.compute()
        compare(sim, p)
