"""C16 - the size-aggregated (linear) environment is a faithful abstraction of the full one.

The wrapper breaks ties among coalitions of the chosen size with the *legacy global*
numpy stream; the simulator sets that stream from the tape before every step (S3 seam),
so tie-breaks are explored, replayable and shrinkable.
"""
from __future__ import annotations

import numpy as np

from .. import em, games, simthreads
from .. import prelude
from ..core import Sim

LEVEL = "exploration"
RULE = ("Each run wraps one environment (n = 3..6, class-matched hidden games from harness constructions or "
        "registered families, any gap function, budget None or k) in the linear wrapper and plays tape-drawn allowed "
        "sizes until done (resets in between), with the global numpy stream re-seeded from the tape before every "
        "step, the wrapper sometimes pickled or deep-copied mid-session and sometimes stepped while another "
        "wrapper is stepped in a second caller thread; after every call mask, revealed coalition, reward, done and aggregated observation are compared with "
        "the inner environment and the reference model. Non-trivial = evaluated after a step; distinct = distinct "
        "event-log digests.")
STATE_MEASURE = "distinct (n, set of revealed coalitions) at which the wrapper was compared with the inner environment"
REAL_VS_STUB = {"real": ["icg_gym_linear.ICG_Gym_Linear", "icg_gym.ICG_Gym", "bounds", "normalize"], "stub": [],
                "seams": ["legacy global numpy RNG set from the tape before every step (tie-breaks)",
                          "pickle / deepcopy of the wrapper mid-session", "line-granular thread interleaver (sim/simthreads.py)"]}
ASSUMPTIONS = ["the inner environment's own outputs are judged by the C09 oracle in the same run"]
PROBES = ["wrapper_copied_mid_session", "step_overlapped_with_another_wrappers_step", "whole_size_class_initially_known", "large_n_mode", "second_environment_same_process", "initial_knowledge_beyond_minimal", "size_exhausted_masked", "tie_break_among_3plus", "reset_mid_episode", "done_reached", "n6"]
TIERS = {
    "quick": {"runs": 10000, "wall": 40, "batch": 8, "shrink_s": 40},
    "thorough": {"runs": 2000000, "wall": 900, "batch": 16, "shrink_s": 120},
}
KEYS = {"SA": ["factory", "noisy_factory", "graph_random", "graph_cycle", "factory_cheerleader_next"],
        "SAM": ["xos", "xs", "k_budget_generator", "covg_fn_generator", "oxs"]}


def preload() -> None:
    import incomplete_cooperative.icg_gym_linear  # noqa: F401
    import incomplete_cooperative.generators  # noqa: F401
    games.gap_functions()


def check_linear(sim: Sim, lin, env, n: int, explorable: list[int], revealed: set[int], ctx: dict) -> None:
    sizes = [games.popcount(e) for e in explorable]
    unknown_by_size = [0] * n
    for e, s in zip(explorable, sizes):
        if e not in revealed:
            unknown_by_size[s] += 1
    sim.checked()
    mask = np.array(lin.action_masks())
    exp_mask = np.array([unknown_by_size[k] > 0 for k in range(n)])
    if mask.shape != (n,) or not np.array_equal(mask.astype(bool), exp_mask):
        sim.fail("C16.mask_is_not_some_unknown_coalition_of_that_size",
                 {**ctx, "expected": exp_mask.astype(int).tolist(), "got": mask.astype(int).tolist()})
    inner = np.array(env.state, dtype=np.float64)
    exp_obs = np.zeros(n)
    for x, s in zip(inner, sizes):
        exp_obs[s] += x
    obs = np.array(lin.state, dtype=np.float64)
    if obs.shape != (n,) or not np.allclose(obs, exp_obs, rtol=1e-12, atol=1e-12):
        sim.fail("C16.observation_is_not_per_size_sum", {**ctx, "expected": exp_obs.tolist(), "got": obs.tolist()})
    if any(unknown_by_size[k] == 0 and any(s == k for s in sizes) for k in range(n)):
        sim.probe("size_exhausted_masked")
    return exp_obs


def run_large(sim: Sim) -> None:
    """Beyond the stated n = 3..6: n = 7..11 with the no-op bound computer (cheap), one size class stepped
    until it is exhausted, so that size classes with hundreds of coalitions are crossed completely."""
    from incomplete_cooperative.icg_gym_linear import ICG_Gym_Linear
    n = 7 + sim.choose(5, "large-n")
    rng = sim.np_rng("large-values")
    values = games.sa_closure(rng.integers(0, 5, 2 ** n).astype(np.float64), n) if n <= 8 else \
        np.array([games.popcount(s) ** 2 for s in range(2 ** n)], dtype=np.float64) + rng.integers(0, 2, 2 ** n) * 0.0
    gaps = games.gap_functions()
    sim.config.update(n=n, mode="large", computer=None)
    sim.probe("large_n_mode")
    with sim.guard("C16.construction_raised"):
        env = em.make_env(n, None, em.ListSource([values], n), gaps["l1_norm"], None)
        lin = ICG_Gym_Linear(env)
    explorable = games.explorable_ids(n)
    sizes = np.array([games.popcount(e) for e in explorable])
    index_of = {e: i for i, e in enumerate(explorable)}
    unknown = np.ones(len(explorable), dtype=bool)
    ctx = {"n": n, "mode": "large"}
    k = None
    for step in range(60 + sim.choose(500, "large-steps")):
        counts = np.bincount(sizes[unknown], minlength=n)
        allowed = [x for x in range(n) if counts[x] > 0]
        sim.checked()
        mask = np.array(lin.action_masks()).astype(bool)
        if mask.shape != (n,) or mask.tolist() != [counts[x] > 0 for x in range(n)]:
            sim.fail("C16.mask_is_not_some_unknown_coalition_of_that_size",
                     {**ctx, "step": step, "unknown_per_size": counts.tolist(), "got": mask.astype(int).tolist()})
        if not allowed:
            break
        if k not in allowed or sim.flip(1, 60, "switch-size"):
            k = sim.pick(allowed, "size")
        np.random.seed(sim.choose(2 ** 32, "tie-break-stream"))
        known_before = np.array(env.incomplete_game.are_values_known()).copy()
        sim.op("step", k)
        with sim.guard("C16.step_raised"):
            obs, reward, done, trunc, info = lin.step(k)
        newly = np.nonzero(np.array(env.incomplete_game.are_values_known()) & ~known_before)[0]
        if len(newly) != 1 or games.popcount(int(newly[0])) != k or int(newly[0]) not in index_of \
                or not unknown[index_of[int(newly[0])]] or info.get("chosen_coalition") != int(newly[0]):
            sim.fail("C16.step_did_not_reveal_exactly_one_coalition", {**ctx, "size": k, "newly_known": newly.tolist()})
        unknown[index_of[int(newly[0])]] = False
        inner = np.array(env.state, dtype=np.float64)
        exp_obs = np.bincount(sizes, weights=inner, minlength=n)[:n]
        if np.array(obs).shape != (n,) or not np.allclose(np.array(obs, dtype=np.float64), exp_obs, rtol=1e-10, atol=1e-10):
            sim.fail("C16.returned_observation_is_not_per_size_sum", {**ctx, "step": step})
        if counts[k] - 1 in (255, 256, 257):
            sim.probe("crossed_256_unknown_in_one_size")
    sim.state(n, "large", int(unknown.sum()))


def run(sim: Sim) -> None:
    from incomplete_cooperative.icg_gym_linear import ICG_Gym_Linear
    if sim.choose(24 if sim.tier == "quick" else 12, "large-mode") == 1:
        return run_large(sim)
    n = 3 + sim.choose(4, "n")
    if n == 6:
        sim.probe("n6")
    cls = sim.pick(["SA", "SAM"], "class")
    comp_name = sim.pick(games.computers_for(cls, n), "computer") if n < 6 else \
        sim.pick(["superadditive_cached"] + (["sam_apx_1"] if cls == "SAM" else []), "computer")
    gaps = games.gap_functions()
    gap_name = sim.pick(sorted(gaps) if n < 6 else ["l1_norm", "linf_norm", "l2_norm"], "gap")
    all_expl = games.explorable_ids(n)
    budget = None if not sim.flip(1, 3, "budget?") else sim.choose(len(all_expl) + 1, "budget")
    prelude.warm_process(sim)
    n_envs = 1 + sim.choose(2, "environments-in-this-process")
    n_extra = sim.choose(min(4, len(all_expl) - 1), "initially-known-extras") if sim.flip(1, 2, "extras?") else 0
    for e_idx in range(n_envs):
        # environments of one process: same n, equally many initially known coalitions, possibly different ones
        extras = sim.shuffled(all_expl, "which-extras")[:n_extra]
        if n >= 4 and sim.flip(1, 6, "whole-size-class-known"):
            k = 2 + sim.choose(n - 3, "known-size-class")  # every coalition of one size 2..n-2 is known from the start
            extras = [e for e in all_expl if games.popcount(e) == k]
            sim.probe("whole_size_class_initially_known")
        if extras:
            sim.probe("initial_knowledge_beyond_minimal")
        if e_idx:
            sim.probe("second_environment_same_process")
        _session(sim, ICG_Gym_Linear, n, cls, comp_name, gaps, gap_name, budget, sorted(extras), e_idx)


def _session(sim: Sim, ICG_Gym_Linear, n, cls, comp_name, gaps, gap_name, budget, extras, e_idx) -> None:
    explorable = [e for e in games.explorable_ids(n) if e not in extras]
    if budget is not None:
        budget = min(budget, len(explorable))
    exact = False
    with sim.guard("C16.construction_raised"):
        if sim.flip(1, 3, "registry"):
            source = em.RegistrySource(sim.pick(KEYS[cls], "key"), n, sim.choose(2 ** 32, "seed"))
        else:
            drawn = [games.draw_game(sim, n, cls) for _ in range(1 + sim.choose(3, "n-games"))]
            exact = all(e for _, e in drawn)
            source = em.ListSource([v for v, _ in drawn], n)
        env = em.make_env(n, comp_name, source, gaps[gap_name], budget, initial_extra=extras)
        lin = ICG_Gym_Linear(env)
    ctx = {"n": n, "computer": comp_name, "gap": gap_name, "budget": budget, "initially_known_extras": extras, "environment": e_idx}
    sim.config.update(ctx)
    revealed_actions: list[int] = []
    steps = 0
    hidden = source.current()
    check_linear(sim, lin, env, n, explorable, set(), ctx)
    calls = 6 + sim.choose(2 * len(explorable) + 4, "calls")
    other = None
    for _ in range(calls):
        revealed = {explorable[a] for a in revealed_actions}
        allowed = [k for k in range(n) if any(games.popcount(e) == k and e not in revealed for e in explorable)]
        done_now = bool(lin.done)
        if done_now:
            sim.probe("done_reached")
        if not allowed or (done_now and sim.flip(2, 3, "reset-when-done")) or sim.flip(1, 12, "reset"):
            if revealed_actions and not done_now:
                sim.probe("reset_mid_episode")
            sim.op("reset")
            with sim.guard("C16.reset_raised"):
                obs, info = lin.reset()
            revealed_actions, steps = [], 0
            hidden = source.current()
            exp_obs = check_linear(sim, lin, env, n, explorable, set(), ctx)
            if np.array(obs).shape != (n,) or not np.allclose(np.array(obs, dtype=np.float64), exp_obs, atol=1e-12):
                sim.fail("C16.reset_observation", {**ctx, "got": np.array(obs).tolist()})
            em.check_env(sim, env, n, comp_name, gaps[gap_name], hidden, revealed_actions, steps, budget, True, exact, "C16.inner", extras=extras)
            continue
        if sim.flip(1, 14, "process-boundary") and getattr(lin, "icg_gym", None) is env:
            # the wrapper is shipped to another process / copied (what evaluate() with a pool and vectorised
            # training do): the session continues on the copy, whose inner environment and source travelled with it
            import copy
            import pickle
            how = sim.pick(["pickle", "deepcopy"], "copy-how")
            sim.op("copy-wrapper", how)
            with sim.guard("C16.copying_raised"):
                lin = pickle.loads(pickle.dumps(lin)) if how == "pickle" else copy.deepcopy(lin)
                env = lin.icg_gym
                source = env.generator
            sim.fault("wrapper_crossed_a_process_boundary")
            sim.probe("wrapper_copied_mid_session")
            check_linear(sim, lin, env, n, explorable, revealed, ctx)
        k = sim.pick(allowed, "size")
        cands = [a for a, e in enumerate(explorable) if games.popcount(e) == k and e not in revealed]
        if len(cands) >= 3:
            sim.probe("tie_break_among_3plus")
        np.random.seed(sim.choose(2 ** 32, "tie-break-stream"))
        sim.op("step", k)
        known_before = np.array(env.incomplete_game.are_values_known()).copy()
        other_call = None
        if n <= 5 and sim.flip(1, 5, "threads"):
            if other is None:
                v2, _ = games.draw_game(sim, n, cls)
                other = ICG_Gym_Linear(em.make_env(n, comp_name, em.ListSource([v2], n), gaps[gap_name], None))
            allowed2 = [int(x) for x in np.nonzero(np.array(other.action_masks()))[0]]
            if not allowed2:
                other.reset()
                allowed2 = [int(x) for x in np.nonzero(np.array(other.action_masks()))[0]]
            k2 = sim.pick(allowed2, "other-size")
            other_env = other

            def other_call():
                try:
                    other_env.step(k2)
                except Exception:  # not judged
                    pass
        with sim.guard("C16.step_raised"):
            if other_call is not None:
                # a second wrapper is stepped by another caller thread while the judged step runs
                ret = simthreads.interleave(sim, [lambda: lin.step(k), other_call])[0]
                sim.probe("step_overlapped_with_another_wrappers_step")
            else:
                ret = lin.step(k)
        known_after = np.array(env.incomplete_game.are_values_known())
        newly = [int(i) for i in np.nonzero(known_after & ~known_before)[0]]
        gone = [int(i) for i in np.nonzero(~known_after & known_before)[0]]
        sim.checked()
        if len(newly) != 1 or gone:
            sim.fail("C16.step_did_not_reveal_exactly_one_coalition", {**ctx, "size": k, "newly_known": newly, "lost": gone})
        c = newly[0]
        if games.popcount(c) != k or c not in explorable or c in revealed:
            sim.fail("C16.revealed_coalition_has_wrong_size_or_was_known", {**ctx, "size": k, "coalition": c})
        obs, reward, done, trunc, info = ret
        if info.get("chosen_coalition") != c:
            sim.fail("C16.info_does_not_name_the_revealed_coalition", {**ctx, "revealed": c, "info": info.get("chosen_coalition")})
        a = explorable.index(c)
        revealed_actions.append(a)
        steps += 1
        sim.event("revealed", c)
        # reward and done are the inner environment's; the inner environment satisfies the C09 oracle
        if np.float64(reward).tobytes() != np.float64(env.reward).tobytes() or bool(done) != bool(env.done) \
                or np.float64(lin.reward).tobytes() != np.float64(env.reward).tobytes() or bool(lin.done) != bool(env.done):
            sim.fail("C16.reward_or_done_differs_from_inner_environment",
                     {**ctx, "reward": float(reward), "inner_reward": float(env.reward), "done": bool(done), "inner_done": bool(env.done)})
        em.check_env(sim, env, n, comp_name, gaps[gap_name], hidden, revealed_actions, steps, budget, True, exact, "C16.inner", extras=extras)
        exp_obs = check_linear(sim, lin, env, n, explorable, {explorable[x] for x in revealed_actions}, ctx)
        if np.array(obs).shape != (n,) or not np.allclose(np.array(obs, dtype=np.float64), exp_obs, rtol=1e-12, atol=1e-12):
            sim.fail("C16.returned_observation_is_not_per_size_sum", {**ctx, "got": np.array(obs).tolist(), "expected": exp_obs.tolist()})
        sim.state(n, tuple(sorted(revealed_actions)))
