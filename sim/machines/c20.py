"""C20 - saving results is all-or-nothing under a crash (fault enumeration).

For each seeded file history the victim save is executed fault-free once to
learn its raw I/O event list, then re-executed from the same starting directory
once for every event x {kill before, kill after, KeyboardInterrupt} and, for
write events, killed after j bytes.  After each injected fault a "restarted
process" inspects the directory with the real reader.
"""
from __future__ import annotations

import os
from pathlib import Path

from .. import seams, sm
from .. import prelude
from ..core import Sim, SimInterrupt, SimKill
from ..simfs import Plan, SimFS

LEVEL = "fault_enumeration"
RULE = ("Each run draws a file history (0..5 earlier saved runs of varied size, buffering knobs, short-write knob), "
        "learns the raw I/O event list of one more save and enumerates every event x {kill-before, kill-after, "
        "interrupt} plus kill after j bytes of every write (all events when <= 48, a tape-drawn sample plus first/"
        "last otherwise); I/O errors are injected as observation only. Non-trivial = at least one fault fired "
        "inside the save; distinct = distinct event-log digests.")
STATE_MEASURE = "distinct (event kind, fault kind, file-exists-before) combinations at which the oracle ran"
REAL_VS_STUB = {"real": ["incomplete_cooperative.run.save (save_json, save, Output, readers)", "json", "pathlib",
                         "io.BufferedWriter / TextIOWrapper"],
                "stub": ["matplotlib savers (no-op) in fan-out runs"],
                "seams": ["SimFS raw file layer over a real /dev/shm directory", "os.replace/rename/unlink/mkdir/..."]}
ASSUMPTIONS = ["durability model is process death (what the kernel was handed survives), not power loss: fsync "
               "ordering is not demanded", "stray temporary files next to data.json are permitted",
               "content equality is equality of the parsed JSON (NaN-aware), not byte equality"]
PROBES = ["kill_mid_write", "kill_at_open", "kill_at_close_or_replace", "interrupt_in_save", "history_nonempty",
          "many_events", "fanout_save", "e2e_solve_command", "large_results_file"]
TIERS = {
    "quick": {"runs": 2500, "wall": 40, "batch": 4, "shrink_s": 40},
    "thorough": {"runs": 500000, "wall": 1200, "batch": 8, "shrink_s": 120},
}


def preload() -> None:
    import incomplete_cooperative.__main__  # noqa: F401
    import incomplete_cooperative.run.save  # noqa: F401
    from .. import simpool
    simpool.record_import_scalars()


def _noop_saver(path, unique_name, output) -> None:
    return None


def run(sim: Sim) -> None:
    from incomplete_cooperative.run import save as save_mod
    buf = sim.pick([-1, 8192, 512, 64, 16, 1], "buffer")
    fs = SimFS(sim, buffer_size=buf, write_through=bool(sim.choose(2, "write-through")))
    fs.short_every = sim.pick([0, 0, 3, 2], "short-every")
    mode = sim.pick_weighted([("json", 7), ("fanout", 2), ("e2e", 1)], "mode")
    fanout = mode != "json"
    sim.config.update(buffer=buf, write_through=fs.write_through, short_every=fs.short_every, mode=mode)
    saved_savers = dict(save_mod.SAVERS)
    prelude.warm_process(sim)
    try:
        fs.install()
        if fanout:
            for k in list(save_mod.SAVERS):
                if k != "data.json":
                    save_mod.SAVERS[k] = _noop_saver
            sim.probe("fanout_save")
        _run(sim, fs, save_mod, fanout, mode == "e2e")
    finally:
        save_mod.SAVERS.clear()
        save_mod.SAVERS.update(saved_savers)
        fs.cleanup()


def _do_save(save_mod, fs: SimFS, fanout: bool, model_dir: str, name: str, out) -> None:
    if fanout:
        save_mod.save(Path(model_dir), name, out)
    else:
        save_mod.save_json(Path(model_dir) / "data.json", name, out)


def _e2e_victim(sim: Sim, model_dir: str, name: str):
    """The victim save is the one issued at the end of a whole `solve` command."""
    import incomplete_cooperative.__main__ as main_mod
    from .. import simpool
    gen = sim.pick(["factory", "noisy_factory", "xos", "graph_random"], "e2e-generator")
    args = ["prog", "--number-of-players", "3", "--game-class", sim.pick(["superadditive", "superadditive_cached"], "e2e-class"),
            "--game-generator", gen, "--run-steps-limit", str(1 + sim.choose(3, "e2e-limit")), "--model-dir", model_dir,
            "--unique-name", name, "--seed", str(sim.choose(10 ** 6, "e2e-seed")),
            "--parallel-environments", str(1 + sim.choose(3, "e2e-p")), "solve",
            "--solve-repetitions", str(1 + sim.choose(4, "e2e-reps")), "--solver", sim.pick(["greedy", "largest", "random"], "e2e-solver")]
    image = sim.pick(["fork", "fresh"], "e2e-image")
    parser = main_mod.get_argument_parser()

    def victim() -> None:
        with simpool.installed(sim, image):
            main_mod.main(parser, list(args))
    sim.probe("e2e_solve_command")
    return victim


def _run(sim: Sim, fs: SimFS, save_mod, fanout: bool, e2e: bool = False) -> None:
    # byte-granular raw writes (tiny buffer + write-through) are not combined with 100 KiB results: cost only
    large_ok = not (fs.write_through and fs.buffer_size in (1, 16))
    model_dir = os.path.join(fs.root, "model") if fanout else fs.root
    target_rel = os.path.join("model", "data.json") if fanout else "data.json"
    used: list[str] = []
    fs.log_to_sim = False
    k = sim.choose(6, "earlier-runs")
    if sim.flip(1, 8, "long-history"):
        k = 6 + sim.choose(10, "earlier-runs-many")
    procs = seams.SimProcesses(sim)
    nprocs = 1 + sim.choose(3, "processes-sharing-the-directory")

    def restub() -> None:
        if fanout:
            for key in list(save_mod.SAVERS):
                if key != "data.json":
                    save_mod.SAVERS[key] = _noop_saver

    with sim.guard("C20.fault_free_save_raised"):
        for _ in range(k):
            if nprocs > 1:
                procs.switch(sim.choose(nprocs, "saving-process"))
                restub()
            name = sm.draw_name(sim, used, want_new=True)
            out = sm.draw_output(sim, special=True, max_rows=8, max_cols=8, large_den=40 if large_ok else 0)
            fs.begin_op()
            _do_save(save_mod, fs, fanout, model_dir, name, out)
            used.append(name)
            sim.op("save", name)
    if k:
        sim.probe("history_nonempty")
    start = fs.snapshot()
    prev_raw = start.get(target_rel)
    ok, prev = sm.try_parse(prev_raw)
    if not ok:
        sim.fail("C20.fault_free_history_unparseable", prev)
    victim_name = sm.draw_name(sim, used, want_new=True)
    victim = sm.draw_output(sim, special=True, max_rows=10, max_cols=10, large_den=8 if large_ok else 0)
    if e2e:
        victim_name = victim_name or "run"
        do_victim = _e2e_victim(sim, model_dir, victim_name)
    else:
        def do_victim() -> None:
            _do_save(save_mod, fs, fanout, model_dir, victim_name, victim)
    # learn the event list fault-free
    fs.begin_op()
    with sim.guard("C20.fault_free_save_raised"):
        do_victim()
    events = list(fs.events)
    new_raw = fs.read_real(target_rel)
    ok, new = sm.try_parse(new_raw)
    if not ok or new is None or victim_name not in new or (prev or {}).keys() - new.keys():
        sim.fail("C20.fault_free_save_incomplete", {"parse": ok, "names": sorted(new) if ok and new else None})
    sim.op("victim-learn", victim_name, len(events))
    big = len(new_raw or b"") > 20000  # each crash point re-executes the save: keep big files affordable
    if big:
        sim.probe("large_results_file")
    huge = len(events) > 2000  # tens of thousands of tiny raw writes per re-execution
    if len(events) > (12 if big else 48):
        sim.probe("many_events")
        idxs = sorted(set([0, len(events) - 2, len(events) - 1]) |
                      {sim.choose(len(events), "sample-event") for _ in range(3 if huge else (6 if big else 30))})
        idxs = [i for i in idxs if 0 <= i < len(events)]
    else:
        idxs = list(range(len(events)))
    canon_prev = sm.canon(prev) if prev is not None else None
    canon_new = sm.canon(new)
    fs.log_to_sim = len(events) <= 300  # thousands of tiny raw writes: log faults and verdicts only
    for e in idxs:
        kind, rel, size = events[e]
        plans = [Plan("kill_before", e), Plan("kill_after", e), Plan("interrupt", e)]
        if kind == "write" and size > 1:
            offs = sorted({0, size - 1, sim.choose(size, "offset")} | (set() if big else {1}))
            plans += [Plan("kill_partial", e, j) for j in offs if j < size]
        if sim.flip(1, 6, "ioerror"):
            plans.append(Plan("ioerror", e))
        for plan in plans:
            fs.uninstall()
            fs.restore(start)
            fs.install()
            fs.begin_op(plan)
            outcome = "completed"
            try:
                do_victim()
            except SimKill:
                outcome = "killed"
            except SimInterrupt:
                outcome = "interrupted"
            except OSError as ex:
                outcome = "oserror" if fs.failing else f"unexpected-oserror:{ex!r}"
            except Exception as ex:
                outcome = f"exception:{type(ex).__name__}"
            if not fs.fired:
                continue  # the event list changed under this plan (e.g. earlier interrupt handling); nothing injected
            sim.fault(plan.kind, e, kind, plan.arg)
            sim.crash_points += 1
            if plan.kind == "kill_partial":
                sim.probe("kill_mid_write")
            if kind.startswith("open") and plan.kind.startswith("kill"):
                sim.probe("kill_at_open")
            if kind in ("close", "replace", "rename") and plan.kind.startswith("kill"):
                sim.probe("kill_at_close_or_replace")
            if plan.kind == "interrupt":
                sim.probe("interrupt_in_save")
            # ---- the process is gone; a restarted one looks at the directory
            fs.heal()
            if plan.kind.startswith("kill") and sim.flip(1, 4, "restart-reader-process"):
                procs.restart()  # the reader below is a newly started process (sampled: it costs ~1 ms)
                restub()
            raw = fs.read_real(target_rel)
            judged = plan.kind != "ioerror"
            verdict = _judge(raw, prev_raw, canon_prev, canon_new)
            sim.event("after-fault", plan.kind, e, outcome, verdict)
            sim.state(kind, plan.kind, prev_raw is not None)
            if not judged:
                sim.probe("ioerror_" + ("atomic" if verdict in ("previous", "new", "absent") else "corrupt"))
                continue
            sim.mutations += 1
            sim.checked()
            ctx = {"fault": plan.kind, "event_index": e, "event": [kind, rel, size], "offset": plan.arg,
                   "earlier_runs": k, "events_total": len(events), "outcome": outcome,
                   "file_bytes_after": None if raw is None else len(raw),
                   "file_bytes_before": None if prev_raw is None else len(prev_raw)}
            if verdict == "unparseable":
                sim.fail("C20.file_does_not_parse_after_crash", ctx)
            if verdict == "lost":
                sim.fail("C20.file_vanished_after_crash", ctx)
            if verdict == "other":
                sim.fail("C20.file_is_neither_previous_nor_new_after_crash", ctx)
            # the real reader must accept it, and previously saved runs must all be there
            if raw is not None:
                with sim.guard("C20.reader_rejects_file_after_crash"):
                    outs = save_mod.get_outputs_from_file(Path(model_dir) / "data.json")
                missing = [x for x in used if x not in outs]
                if missing:
                    sim.fail("C20.earlier_runs_lost_after_crash", {**ctx, "missing": missing})
            # bounded progress: the next fault-free save of a new name succeeds and the file holds everything
            if sim.flip(1, 4, "progress-check"):
                fs.begin_op()
                nxt = sm.draw_name(sim, used + [victim_name], want_new=True)
                with sim.guard("C20.next_save_after_crash_fails"):
                    _do_save(save_mod, fs, fanout, model_dir, nxt, victim)
                ok2, after = sm.try_parse(fs.read_real(target_rel))
                expect = set(used) | {nxt} | ({victim_name} if verdict == "new" else set())
                if not ok2 or after is None or set(after) != expect:
                    sim.fail("C20.next_save_after_crash_incomplete",
                             {**ctx, "expected_names": sorted(expect), "got": sorted(after) if ok2 and after else None})
                sim.checked()


def _judge(raw: bytes | None, prev_raw: bytes | None, canon_prev: str | None, canon_new: str) -> str:
    if raw is None:
        return "absent" if prev_raw is None else "lost"
    ok, parsed = sm.try_parse(raw)
    if not ok:
        return "unparseable"
    c = sm.canon(parsed)
    if canon_prev is not None and c == canon_prev:
        return "previous"
    if c == canon_new:
        return "new"
    return "other"
