"""C10 - every offered generator runs, yields a game of its class, and a seeded call is a
function of (name, n, supplied generator state) and of nothing else in the process.

What the simulator controls here is S3 (hidden randomness / per-process state): twin
calls with the same (key, n, seed) are planted at two points of a call history, with
entropy jumps of every hidden stream, other generator calls and a change of process
image (SimPool worker, fork or fresh) in between; twins must return identical games.
"""
from __future__ import annotations

import re
from functools import partial

import numpy as np

from .. import games, seams, simpool, simthreads
from .. import prelude
from ..core import Sim

LEVEL = "exploration"
RULE = ("Each run is a seeded history of 6..16 generator calls over keys of the live registry (minus 'convex') and "
        "n = 3..6 (thorough ..8); 2..4 twin calls (same key, n, seed) are planted at two points, separated by "
        "entropy jumps of all hidden streams, other calls and - in half of the runs - execution of the second twin "
        "inside a simulated pool worker (fork or fresh process image), or while a second caller thread is inside a "
        "generator as well (line-granular interleaving). Every draw is monitored (players, v(empty), "
        "float64, superadditive, monotone where assumed). Non-trivial = a twin pair was compared after at least "
        "one disturbance; distinct = distinct event-log digests.")
STATE_MEASURE = "distinct (generator key, n) pairs drawn and monitored"
REAL_VS_STUB = {"real": ["incomplete_cooperative.generators", "graph_game", "networkx generators", "numpy.random"],
                "stub": ["multiprocessing.Pool -> SimPool (process images)"],
                "seams": ["hidden RNG streams (generators._gen, def-time default Generators, legacy np.random, "
                          "random) set from the tape", "generators._LAST_OWNER via process images",
                          "line-granular thread interleaver (sim/simthreads.py)",
                          "supplied Generator with a bounded burst of coincidences (StickyGenerator)"]}
ASSUMPTIONS = ["every output sequence of the supplied random generator is a legal input: one call in three gets a "
               "stream with one bounded burst of repeated integers / same-half uniforms",
               "class membership is monitored on the draws made, with the documented relative tolerance 1e-9; it is "
               "not decided for all seeds", "documented exceptions (graph-weight-distribution family, round-robin "
               "factory) are exempt from the twin comparison only"]
PROBES = ["generator_met_a_burst_of_coincidences", "twin_while_another_thread_generates", "returned_game_mutated_by_caller", "twin_across_entropy_jump", "twin_in_worker_fork", "twin_in_worker_fresh", "exception_family_drawn",
          "cheerleader_drawn", "monotone_family_drawn"]
TIERS = {
    "quick": {"runs": 40000, "wall": 40, "batch": 24, "shrink_s": 40},
    "thorough": {"runs": 5000000, "wall": 900, "batch": 32, "shrink_s": 120},
}

MONOTONE = re.compile(r"^(xos|xs|oxs|k_budget|covg)")
UNSEEDED_NAME = re.compile(r"^graph($|_tirangular|_increasing|_decreasing|_beta_|_03_03|_poiss_)")


def preload() -> None:
    import incomplete_cooperative.generators  # noqa: F401
    simpool.record_import_scalars()


def is_exception(key: str) -> bool:
    from incomplete_cooperative import generators as G
    if key == "predictible_factory" or UNSEEDED_NAME.match(key):
        return True
    fn = G.GENERATORS[key]
    while isinstance(fn, partial):
        fn = fn.func
    return fn is getattr(G, "graph_generator", None) or fn is getattr(G, "predictible_factory_generator", None)


class StickyGenerator(np.random.Generator):
    """A seeded numpy Generator whose stream contains one burst of coincidences (fault seam "rare draw").

    Every output sequence of a random generator is a legal one; the interesting rare ones - the same integer
    several times in a row, a run of uniforms that all fall into the same half - practically never come out of a
    short seeded search although a long experiment campaign meets them.  During calls number `at` .. `at+length-1`
    (counting calls of integers() and random()) the result is forced to repeat: integers() returns the value it
    returned last for the same bounds (arrays are filled with one value), random() moves every value into the half
    of [0, 1) in which the previous value lay.  The underlying bit stream advances as usual, the object is a pure
    function of (seed, at, length), and the burst is bounded, so rejection loops terminate.
    """

    def __init__(self, seed: int, at: int, length: int) -> None:
        super().__init__(np.random.PCG64(seed))
        self._at, self._len, self._calls = at, length, 0
        self._last_int: dict = {}
        self._last_half: bool | None = None
        self.bursts = 0

    def _in_burst(self) -> bool:
        c = self._calls
        self._calls += 1
        return self._at <= c < self._at + self._len

    def integers(self, low, high=None, size=None, dtype=np.int64, endpoint=False):
        r = super().integers(low, high, size, dtype, endpoint)
        burst = self._in_burst()
        try:
            key = (int(low), None if high is None else int(high), bool(endpoint))
        except (TypeError, ValueError):  # array bounds: left alone
            return r
        if burst:
            prev = self._last_int.get(key)
            if np.ndim(r) == 0:
                if prev is not None:
                    r = type(r)(prev) if isinstance(r, np.generic) else prev
                    self.bursts += 1
            elif np.size(r):
                r = np.full_like(r, prev if prev is not None else r.flat[0])
                self.bursts += 1
        if np.size(r):
            self._last_int[key] = int(np.asarray(r).flat[-1])
        return r

    def random(self, size=None, dtype=np.float64, out=None):
        r = super().random(size, dtype, out)
        burst = self._in_burst()
        if out is not None:
            return r
        if burst and np.size(r):
            half = self._last_half if self._last_half is not None else bool(np.asarray(r).flat[0] >= 0.5)
            a = np.asarray(r)
            moved = np.where((a >= 0.5) != half, (a + 0.5) % 1.0, a).astype(a.dtype)
            r = moved if np.ndim(r) else type(r)(moved)
            self.bursts += 1
        if np.size(r):
            self._last_half = bool(np.asarray(r).flat[-1] >= 0.5)
        return r


def draw(key: str, n: int, seed: int, consume: int = 0, sticky: tuple | None = None) -> np.ndarray:
    """Module-level so that it pickles by reference into a simulated worker.

    `consume` > 0: after the game has been described, its caller uses it the way real consumers do - in
    place (normalise it, overwrite values): a returned game belongs to the caller.
    """
    from incomplete_cooperative.generators import GENERATORS
    rng = np.random.Generator(np.random.PCG64(seed)) if sticky is None else StickyGenerator(seed, *sticky)
    g = GENERATORS[key](n, rng)
    d = _describe(g, n)
    d["bursts"] = int(getattr(rng, "bursts", 0))
    if consume:
        try:
            from incomplete_cooperative.normalize import normalize_game
            if consume == 1:
                normalize_game(g)
            elif hasattr(g, "set_values"):
                g.set_values(np.arange(2 ** n, dtype=np.float64) * 7.0 - 3.0)
            else:
                normalize_game(g)
        except Exception:
            pass
    return d


def _describe(g, n: int):
    vals = g.get_values()
    return {"players": int(g.number_of_players), "dtype": str(np.asarray(vals).dtype),
            "values": np.array(vals, dtype=np.float64), "empty": float(g.get_value(games.coalition(0)))}


def monitor(sim: Sim, key: str, n: int, seed: int, d: dict) -> None:
    ctx = {"key": key, "n": n, "seed": seed}
    sim.checked()
    v = d["values"]
    if d["players"] != n or v.shape != (2 ** n,):
        sim.fail("C10.wrong_number_of_players", {**ctx, "players": d["players"], "shape": list(v.shape)})
    if d["dtype"] != "float64":
        sim.fail("C10.values_not_float64", {**ctx, "dtype": d["dtype"]})
    if d["empty"] != 0.0 or v[0] != 0.0:
        sim.fail("C10.empty_coalition_value_not_zero", {**ctx, "value": d["empty"]})
    if not np.isfinite(v).all():
        sim.fail("C10.non_finite_values", ctx)
    for s in range(2 ** n):
        for a in games.submasks(s):
            lhs = v[a] + v[s ^ a]
            if lhs > v[s] + 1e-9 * max(abs(v[s]), abs(lhs)) + 1e-12:
                sim.fail("C10.not_superadditive", {**ctx, "S": s, "A": a, "v(A)+v(S-A)": float(lhs), "v(S)": float(v[s])})
    if MONOTONE.match(key):
        sim.probe("monotone_family_drawn")
        tol = 1e-12 * max(1.0, float(np.max(np.abs(v))))
        if not games.is_mono_dec(v, n, tol):
            sim.fail("C10.not_monotone_non_increasing", ctx)
    sim.state(key, n)


def draw_sticky(sim: Sim) -> tuple | None:
    """One call in three gets a supplied generator with one burst of coincidences (see StickyGenerator)."""
    if not sim.flip(1, 3, "rare-draws"):
        return None
    return (sim.choose(5, "burst-at"), 1 + sim.choose(6, "burst-length"))


def run(sim: Sim) -> None:
    from incomplete_cooperative.generators import GENERATORS
    thorough = sim.tier == "thorough"
    keys = [k for k in GENERATORS if k != "convex"]
    seeded_keys = [k for k in keys if not is_exception(k)]
    max_n = 8 if thorough else 6
    image_model = sim.pick(["fork", "fresh"], "image-model")
    use_pool = bool(sim.choose(2, "use-pool"))
    sim.config.update(image_model=image_model, use_pool=use_pool)
    prelude.warm_process(sim)
    n_twins = 2 + sim.choose(3, "n-twins")
    twins = []
    for _ in range(n_twins):
        key = sim.pick(keys, "twin-key")
        n = 3 + sim.choose(max_n - 2, "twin-n")
        if key == "oxs" and n > 6 and not thorough:
            n = 6
        twins.append((key, n, sim.choose(2 ** 32, "twin-seed"), draw_sticky(sim)))
    first: dict[int, dict] = {}
    pending = list(range(n_twins))
    second_pending: list[int] = []
    steps = 6 + sim.choose(11, "steps")
    disturbed: dict[int, int] = {}

    def one_call(key: str, n: int, seed: int, in_worker: bool, sticky: tuple | None = None) -> dict:
        sim.op("generate", key, n, in_worker, sticky)
        if key == "factory_cheerleader":
            sim.probe("cheerleader_drawn")
        with sim.guard("C10.generator_raised"):
            if in_worker:
                with simpool.installed(sim, image_model, cpu_count=2 + sim.choose(3, "cpus")):
                    import multiprocessing
                    with multiprocessing.Pool(processes=1 + sim.choose(4, "pool-size")) as p:
                        extra = [(k2, n2, s2, 0, st2) for (k2, n2, s2, st2) in [twins[sim.choose(n_twins, "filler")]]
                                 if sim.flip(1, 2, "filler?")]
                        res = p.starmap(draw, extra + [(key, n, seed, 0, sticky)])
                d = res[-1]
            else:
                consume = sim.choose(3, "caller-mutates-returned-game")
                if consume:
                    sim.probe("returned_game_mutated_by_caller")
                d = draw(key, n, seed, consume, sticky)
        if d.get("bursts"):
            sim.fault("rare_coincidence_in_the_supplied_random_stream", d["bursts"])
            sim.probe("generator_met_a_burst_of_coincidences")
        monitor(sim, key, n, seed, d)
        return d

    for step in range(steps + 2 * n_twins):
        choices = [("other", 3), ("jump", 2)]
        if pending:
            choices.append(("first", 4))
        if second_pending:
            choices.append(("second", 4))
        if not pending and not second_pending:
            break
        what = sim.pick_weighted(choices, "what")
        if what == "other":
            key = sim.pick(keys, "other-key")
            n = 3 + sim.choose(min(max_n, 6) - 2, "other-n")
            if is_exception(key):
                sim.probe("exception_family_drawn")
            one_call(key, n, sim.choose(2 ** 32, "other-seed"), False, draw_sticky(sim))
            for t in second_pending:
                disturbed[t] = disturbed.get(t, 0) + 1
        elif what == "jump":
            seams.entropy_jump(sim)
            gens = __import__("sys").modules.get("incomplete_cooperative.generators")
            if gens is not None and hasattr(gens, "_LAST_OWNER") and sim.flip(1, 2, "owner-jump"):
                gens._LAST_OWNER = sim.choose(8, "last-owner")
            for t in second_pending:
                disturbed[t] = disturbed.get(t, 0) + 1
                sim.mutations += 1
        elif what == "first":
            t = pending.pop(sim.choose(len(pending), "which-first"))
            key, n, seed, sticky = twins[t]
            first[t] = one_call(key, n, seed, False, sticky)
            second_pending.append(t)
        else:
            t = second_pending.pop(sim.choose(len(second_pending), "which-second"))
            key, n, seed, sticky = twins[t]
            in_worker = use_pool and sim.flip(1, 2, "in-worker")
            if not in_worker and n <= 5 and not is_exception(key) and sim.flip(1, 4, "threads"):
                # the second twin is drawn while another caller thread is inside a generator too (the same key half
                # of the time), pre-empted between package lines as the tape says.  Only generators that are functions
                # of (n, supplied generator) take part: the documented exceptions work on process-global state by
                # design (round-robin owner, module-level streams), and what two overlapping callers of those see is
                # outside what the property promises (soak 3: two overlapping round-robin calls with n = 3 and n = 4
                # raise IndexError - an artefact of this schedule dimension, see DESIGN 10.3)
                key2 = key if sim.flip(1, 2, "same-key") else sim.pick(seeded_keys, "thread-key")
                n2 = n if sim.flip(1, 2, "same-n") else 3 + sim.choose(3, "thread-n")
                seed2 = sim.choose(2 ** 32, "thread-seed")
                sim.op("generate-in-two-threads", key, n, key2, n2)

                def other_thread():
                    try:
                        draw(key2, n2, seed2)
                    except Exception:  # not judged here
                        pass
                with sim.guard("C10.generator_raised"):
                    d2 = simthreads.interleave(sim, [lambda: draw(key, n, seed, 0, sticky), other_thread])[0]
                monitor(sim, key, n, seed, d2)
                sim.probe("twin_while_another_thread_generates")
                disturbed[t] = disturbed.get(t, 0) + 1
                sim.mutations += 1
            else:
                d2 = one_call(key, n, seed, in_worker, sticky)
            if in_worker:
                sim.probe("twin_in_worker_" + image_model)
                sim.mutations += 1
            if disturbed.get(t):
                sim.probe("twin_across_entropy_jump")
            if is_exception(key):
                sim.probe("exception_family_drawn")
                continue
            sim.checked()
            a, b = first[t]["values"], d2["values"]
            if a.shape != b.shape or a.tobytes() != b.tobytes():
                sim.fail("C10.identically_seeded_calls_differ",
                         {"key": key, "n": n, "seed": seed, "in_worker": in_worker, "image_model": image_model,
                          "burst_of_coincidences (at call, length)": sticky,
                          "disturbances_between": disturbed.get(t, 0),
                          "first": a.tolist()[:16], "second": b.tolist()[:16]})
