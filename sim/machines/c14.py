"""C14 - regret minimiser: constructible at every size; strategies valid distributions;
one-step refinement against a float64 reference model; save -> restart -> continue identically."""
from __future__ import annotations

import itertools
from pathlib import Path

import numpy as np

from .. import games, seams, simthreads
from .. import prelude
from ..core import Sim
from ..simfs import SimFS

LEVEL = "exploration"
RULE = ("Each run draws (n, reveal limit, plain/plus), constructs a minimiser, checks the ranking, then plays a "
        "seeded history of iterations with non-negative float32 terminal vectors (random, all-zero, single spike, "
        "0/1, large) interleaved with checkpoint-restart events (save through the storage seam, drop the object, "
        "evict memos, jump hidden entropy, load, continue twin-fed) and with iterations of a second, unjudged "
        "minimiser of another size in the same process - between the judged iterations or overlapping them in "
        "another caller thread; every iteration is checked at every internal "
        "node against a float64 one-step reference model. Non-trivial = at least one iteration checked; distinct "
        "= distinct event-log digests.")
STATE_MEASURE = "distinct (n, limit, plus, iteration number, restarted?) at which all nodes were checked"
REAL_VS_STUB = {"real": ["incomplete_cooperative.regret", "numpy.save/load", "json"],
                "stub": [], "seams": ["SimFS (fault-free, buffering knobs) for the checkpoint", "process restart",
                                       "line-granular thread interleaver (sim/simthreads.py)"]}
ASSUMPTIONS = ["terminal values are non-negative float32 (the property's precondition)",
               "float32 arithmetic: one-step comparison tolerance 2e-4*scale absolute + 1e-4 relative",
               "rows of cumulative_regret / cumulative_strategy are indexed by the documented rank of a node"]
PROBES = ["iteration_overlapped_with_another_minimisers_iteration", "leaves_listed_in_another_order", "old_checkpoint_loaded_again", "limit_below_boundary", "limit_above_number_of_coalitions", "restart_then_iterate", "n5", "plus",
          "all_zero_values", "uniform_fallback_at_nonroot"]
TIERS = {
    "quick": {"runs": 10000, "wall": 40, "batch": 6, "shrink_s": 40},
    "thorough": {"runs": 2000000, "wall": 900, "batch": 8, "shrink_s": 120},
}


def preload() -> None:
    import incomplete_cooperative.regret  # noqa: F401


def viable_ids(n: int) -> list[int]:
    return [s for s in range(2 ** n) if games.popcount(s) not in (0, 1, n)]


def run(sim: Sim) -> None:
    from incomplete_cooperative.regret import GameRegretMinimizer
    thorough = sim.tier == "thorough"
    n = sim.pick_weighted([(3, 4), (4, 5), (5, 2)], "n")
    noc = 2 ** n - n - 2
    if n == 3:
        limit = sim.pick([1, 2, 3, 4, 5, 60], "limit")
    elif n == 4:
        hi = 12 if thorough else 8
        limit = 1 + sim.choose(hi, "limit")
        if sim.flip(1, 12, "limit-above"):
            limit = sim.pick([10, 11, 12, 40], "limit-hi")
    else:
        limit = 1 + sim.choose(3 if thorough else 2, "limit")
        sim.probe("n5")
    plus = bool(sim.choose(2, "plus"))
    if plus:
        sim.probe("plus")
    if limit < noc - 1:
        sim.probe("limit_below_boundary")
    if limit > noc:
        sim.probe("limit_above_number_of_coalitions")
    sim.config.update(n=n, limit=limit, plus=plus)
    L = min(limit, noc)
    ctx = {"n": n, "limit": limit, "plus": plus}
    prelude.warm_process(sim)
    with sim.guard("C14.constructor_raised"):
        m = GameRegretMinimizer(n, limit, plus)
    sim.op("construct", n, limit, plus)
    check_ranking(sim, m, n, noc, L, ctx)

    viable = viable_ids(n)
    pid_of = {c: i for i, c in enumerate(viable)}
    leaves_pids = list(itertools.combinations(range(noc), L))
    leaves = [[games.coalition(viable[p]) for p in combo] for combo in leaves_pids]
    leaf_ids = [sum(1 << p for p in combo) for combo in leaves_pids]
    internal = [sum(1 << p for p in combo) for size in range(L) for combo in itertools.combinations(range(noc), size)]

    # before any iteration: every strategy is the uniform distribution over what is left at the node
    sim.checked()
    for node in (internal if len(internal) <= 120 else [0] + [internal[sim.choose(len(internal), "node0")] for _ in range(40)]):
        past = [games.coalition(viable[a]) for a in range(noc) if node >> a & 1]
        check_average(sim, m, node, past, n, noc, viable, {**ctx, "iteration": 0})
        with sim.guard("C14.regret_matching_strategy_raised"):
            s0 = np.array(m.regret_matching_strategy(int(node)), dtype=np.float64)
        check_distribution(sim, s0, node, noc, "C14.current_strategy", {**ctx, "node": node, "iteration": 0})

    fs = SimFS(sim, buffer_size=sim.pick([-1, 4096, 64, 7], "buffer"), write_through=bool(sim.choose(2, "wt")))
    fs.log_to_sim = False
    twin = None  # the never-stopped minimiser once a restart has happened
    restarted = False
    checkpoints: list[tuple] = []  # (directory, iteration, regret bytes, strategy bytes) as saved
    second = None  # a second minimiser of this process: (object, its leaves)
    try:
        iters = 1 + sim.choose(6 if len(internal) < 200 else 3, "iterations")
        for t in range(iters):
            if sim.flip(1, 4, "restart"):
                with sim.guard("C14.save_load_raised"):
                    fs.install()
                    d = Path(fs.root) / f"ckpt{t}"
                    fs.begin_op()
                    m.save(d)
                    checkpoints.append((d, int(m.iteration), np.array(m.cumulative_regret).tobytes(),
                                        np.array(m.cumulative_strategy).tobytes()))
                    if twin is None:
                        twin = m
                    # the process ends; a new one starts
                    seams.apply_process_state(None)
                    seams.entropy_jump(sim)
                    m = GameRegretMinimizer.load(d)
                    fs.uninstall()
                sim.fault("checkpoint_restart", t)
                restarted = True
                compare_twins(sim, m, twin, ctx, "after load")
            if sim.flip(1, 8, "other-use"):
                prelude.warm_process(sim, label="midrun")
            if checkpoints and sim.flip(1, 5, "reload-old-checkpoint"):
                # some other process loads an earlier checkpoint again: it must still be what was saved then
                d0, it0_, r0, s0 = checkpoints[sim.choose(len(checkpoints), "which-checkpoint")]
                with sim.guard("C14.save_load_raised"):
                    fs.install()
                    other = GameRegretMinimizer.load(d0)
                    fs.uninstall()
                sim.checked()
                sim.probe("old_checkpoint_loaded_again")
                if int(other.iteration) != it0_ or np.array(other.cumulative_regret).tobytes() != r0 \
                        or np.array(other.cumulative_strategy).tobytes() != s0:
                    sim.fail("C14.checkpoint_changed_after_it_was_saved",
                             {**ctx, "checkpoint_iteration": it0_, "loaded_iteration": int(other.iteration),
                              "regret_equal": np.array(other.cumulative_regret).tobytes() == r0,
                              "strategy_equal": np.array(other.cumulative_strategy).tobytes() == s0})
                del other
            vals = draw_terminal(sim, len(leaves))
            # the caller may list the leaves (and their values) in any order, a different one on every call
            if len(leaves) > 1 and sim.flip(1, 2, "permute-leaves"):
                perm = sim.shuffled(list(range(len(leaves))), "leaf-order")
                sim.probe("leaves_listed_in_another_order")
            else:
                perm = list(range(len(leaves)))
            vals_p = vals[perm]
            leaves_p = [leaves[i] for i in perm]
            leaf_ids_p = [leaf_ids[i] for i in perm]
            other_thread = None
            if sim.flip(1, 4, "other-minimiser"):
                # a second, unjudged minimiser lives in this process (another size / limit, often a bigger tree) and
                # iterates between - or, in another caller thread, during - the judged iterations
                if second is None:
                    n2 = sim.pick([3, 4, 5], "other-n")
                    l2 = sim.pick({3: [2, 3, 4], 4: [1, 2, 3], 5: [1, 2]}[n2], "other-limit")
                    with sim.guard("C14.constructor_raised"):
                        om = GameRegretMinimizer(n2, l2, bool(sim.choose(2, "other-plus")))
                    v2 = viable_ids(n2)
                    o_leaves = [[games.coalition(v2[p]) for p in combo]
                                for combo in itertools.combinations(range(len(v2)), min(l2, len(v2)))]
                    second = (om, o_leaves)
                om, o_leaves = second
                o_vals = draw_terminal(sim, len(o_leaves))

                def other_iteration(om=om, o_vals=o_vals, o_leaves=o_leaves):
                    try:
                        om.regret_min_iteration(o_vals, o_leaves)
                    except Exception:  # not judged
                        pass
                sim.fault("other_minimiser_iterated_in_this_process")
                if len(internal) <= 400 and sim.flip(1, 2, "in-another-thread"):
                    other_thread = other_iteration
                else:
                    other_iteration()
            iterate_checked(sim, m, vals_p, leaves_p, leaf_ids_p, internal, n, noc, L, plus, viable, ctx, other_thread)
            sim.state(n, limit, plus, t, restarted)
            if twin is not None and twin is not m:
                with sim.guard("C14.iteration_raised"):
                    twin.regret_min_iteration(vals_p.copy(), leaves_p)
                compare_twins(sim, m, twin, ctx, f"after iteration {t}")
                sim.probe("restart_then_iterate")
    finally:
        fs.cleanup()


def draw_terminal(sim: Sim, k: int) -> np.ndarray:
    rng = sim.np_rng("terminal")
    kind = sim.choose(6, "terminal-kind")
    if kind == 0:
        v = rng.random(k)
    elif kind == 1:
        v = np.zeros(k)
        sim.probe("all_zero_values")
    elif kind == 2:
        v = np.zeros(k)
        v[sim.choose(k, "spike")] = 1.0
    elif kind == 3:
        v = rng.integers(0, 2, k).astype(float)
    elif kind == 4:
        v = rng.random(k) * 1000.0
    else:
        v = rng.integers(0, 6, k).astype(float) / 4.0
    return v.astype(np.float32)


def check_ranking(sim: Sim, m, n: int, noc: int, L: int, ctx: dict) -> None:
    r2i = [int(x) for x in np.array(m.meta_rank_to_id)]
    sim.checked()
    if len(set(r2i)) != len(r2i):
        sim.fail("C14.ranking_not_injective", ctx)
    sizes = [games.popcount(x) for x in r2i]
    if any(a > b for a, b in zip(sizes, sizes[1:])):
        sim.fail("C14.ranking_not_ordered_by_size", ctx)
    expect = {sum(1 << p for p in combo) for size in range(L + 1) for combo in itertools.combinations(range(noc), size)}
    if set(r2i) != expect:
        sim.fail("C14.ranking_image_is_not_all_sets_up_to_limit",
                 {**ctx, "got": len(r2i), "expected": len(expect)})
    i2r = m.meta_id_to_rank
    with sim.guard("C14.id_to_rank_lookup_raised"):
        back = [int(i2r[x]) for x in r2i]
    if back != list(range(len(r2i))):
        bad = next(r for r, b in enumerate(back) if b != r)
        sim.fail("C14.id_to_rank_is_not_inverse_of_rank_to_id", {**ctx, "rank": bad, "id": r2i[bad], "got": back[bad]})


def strategy_ref(row: np.ndarray, node: int, noc: int) -> np.ndarray:
    pos = np.where(row > 0, row, 0).astype(np.float64)
    if pos.sum() == 0:
        pos = np.ones(noc)
        for a in range(noc):
            if node >> a & 1:
                pos[a] = 0
    return pos / pos.sum()


def iterate_checked(sim: Sim, m, vals: np.ndarray, leaves, leaf_ids, internal, n, noc, L, plus, viable, ctx,
                    other_thread=None) -> None:
    rank = m.meta_id_to_rank
    R0 = np.array(m.cumulative_regret, dtype=np.float64)
    S0 = np.array(m.cumulative_strategy, dtype=np.float64)
    it0 = int(m.iteration)
    scale = max(1.0, float(np.max(vals)) if len(vals) else 1.0)
    # --- strategies before the iteration: distributions with the right support
    sigma = {}
    for node in internal:
        with sim.guard("C14.regret_matching_strategy_raised"):
            s = np.array(m.regret_matching_strategy(int(node)), dtype=np.float64)
        check_distribution(sim, s, node, noc, "C14.current_strategy", {**ctx, "node": node, "iteration": it0})
        ref = strategy_ref(R0[int(rank[node])], node, noc)
        if not np.allclose(s, ref, rtol=1e-4, atol=1e-6):
            sim.fail("C14.current_strategy_is_not_regret_matching", {**ctx, "node": node, "got": s.tolist(),
                                                                     "expected": ref.tolist()})
        if node and (R0[int(rank[node])] <= 0).all():
            sim.probe("uniform_fallback_at_nonroot")
        sigma[node] = s
    sim.op("iteration", it0 + 1, vals)
    with sim.guard("C14.iteration_raised"):
        if other_thread is not None:
            # another caller thread iterates its own minimiser while this iteration runs
            simthreads.interleave(sim, [lambda: m.regret_min_iteration(vals.copy(), leaves), other_thread])
            sim.probe("iteration_overlapped_with_another_minimisers_iteration")
        else:
            m.regret_min_iteration(vals.copy(), leaves)
    R1 = np.array(m.cumulative_regret, dtype=np.float64)
    S1 = np.array(m.cumulative_strategy, dtype=np.float64)
    sim.checked()
    if int(m.iteration) != it0 + 1:
        sim.fail("C14.iteration_counter", {**ctx, "got": int(m.iteration), "expected": it0 + 1})
    if not (np.isfinite(R1).all() and np.isfinite(S1).all()):
        sim.fail("C14.non_finite_regret_or_strategy", {**ctx, "iteration": it0 + 1})
    # --- float64 one-step reference model
    reach = {node: 0.0 for node in internal}
    reach.update({lid: 0.0 for lid in leaf_ids})
    reach[0] = 1.0
    for node in internal:  # ascending size
        for a in range(noc):
            if not node >> a & 1:
                reach[node | 1 << a] += reach[node] * sigma[node][a]
    val = {lid: float(v) for lid, v in zip(leaf_ids, vals)}
    w = (it0 + 1) if plus else 1
    tol = 2e-4 * scale
    for node in reversed(internal):
        q = np.zeros(noc)
        for a in range(noc):
            if not node >> a & 1:
                q[a] = val[node | 1 << a]
        exp = float((q * sigma[node]).sum())
        val[node] = exp
        delta = q - exp
        r = int(rank[node])
        want = R0[r] + delta
        if plus:
            want = np.where(want > 0, want, 0)
        if not np.allclose(R1[r], want, rtol=1e-4, atol=tol):
            sim.fail("C14.regret_update_differs_from_reference", {**ctx, "node": node, "iteration": it0 + 1,
                                                                  "got": R1[r].tolist(), "expected": want.tolist()})
        if not plus:
            d_impl = R1[r] - R0[r]
            dot = float((sigma[node] * d_impl).sum())
            # R is float32: the increment read back as R1 - R0 carries a rounding error of ~eps32 * |R|
            mag = float(max(np.abs(R0[r]).max(), np.abs(R1[r]).max()))
            if abs(dot) > 1e-4 * float(np.abs(d_impl).sum()) + 1e-5 * scale + 1e-6 * mag:
                sim.fail("C14.regret_increment_not_orthogonal_to_strategy", {**ctx, "node": node, "dot": dot})
        want_s = S0[r] + w * sigma[node] * reach[node]
        if not np.allclose(S1[r], want_s, rtol=1e-4, atol=1e-5 * w):
            sim.fail("C14.cumulative_strategy_differs_from_reference", {**ctx, "node": node, "iteration": it0 + 1,
                                                                        "got": S1[r].tolist(), "expected": want_s.tolist()})
    if plus and (R1 < 0).any():
        sim.fail("C14.plus_regret_negative", {**ctx, "min": float(R1.min())})
    # --- strategies after the iteration
    nodes_to_check = internal if len(internal) <= 300 else [internal[sim.choose(len(internal), "node")] for _ in range(60)] + [0]
    for node in nodes_to_check:
        with sim.guard("C14.regret_matching_strategy_raised"):
            s = np.array(m.regret_matching_strategy(int(node)), dtype=np.float64)
        check_distribution(sim, s, node, noc, "C14.current_strategy", {**ctx, "node": node, "iteration": it0 + 1})
        past = [games.coalition(viable[a]) for a in range(noc) if node >> a & 1]
        check_average(sim, m, node, past, n, noc, viable, {**ctx, "iteration": it0 + 1})
        # list-of-coalitions entry point agrees with the id entry point
        with sim.guard("C14.regret_matching_strategy_raised"):
            s2 = np.array(m.regret_matching_strategy(past), dtype=np.float64)
        if not np.array_equal(s, s2):
            sim.fail("C14.strategy_by_coalitions_differs_from_strategy_by_id", {**ctx, "node": node})


def check_average(sim: Sim, m, node: int, past, n: int, noc: int, viable, ctx: dict) -> None:
    with sim.guard("C14.get_average_strategy_raised"):
        avg = np.array(m.get_average_strategy(past), dtype=np.float64)
    if avg.shape != (2 ** n,):
        sim.fail("C14.average_strategy_shape", {**ctx, "shape": list(avg.shape)})
    allowed = np.zeros(2 ** n, dtype=bool)
    for a in range(noc):
        if not node >> a & 1:
            allowed[viable[a]] = True
    if not np.isfinite(avg).all() or (avg < 0).any() or abs(avg.sum() - 1) > 1e-5 or (avg[~allowed] != 0).any():
        sim.fail("C14.average_strategy_not_a_distribution_on_unrevealed_viable_coalitions",
                 {**ctx, "node": node, "avg": avg.tolist()})


def check_distribution(sim: Sim, s: np.ndarray, node: int, noc: int, clause: str, ctx: dict) -> None:
    used = np.array([bool(node >> a & 1) for a in range(noc)])
    if s.shape != (noc,) or not np.isfinite(s).all() or (s < 0).any() or abs(s.sum() - 1) > 1e-5 or (s[used] != 0).any():
        sim.fail(clause + "_not_a_distribution_on_unrevealed_coalitions", {**ctx, "strategy": s.tolist()})


def compare_twins(sim: Sim, a, b, ctx: dict, when: str) -> None:
    sim.checked()
    same = (int(a.iteration) == int(b.iteration)
            and np.array(a.cumulative_regret).dtype == np.array(b.cumulative_regret).dtype
            and np.array_equal(a.cumulative_regret, b.cumulative_regret)
            and np.array_equal(a.cumulative_strategy, b.cumulative_strategy)
            and a.plus == b.plus and a.number_of_players == b.number_of_players)
    if not same:
        sim.fail("C14.restarted_minimiser_diverges_from_continuous_one",
                 {**ctx, "when": when, "iteration": [int(a.iteration), int(b.iteration)],
                  "regret_equal": bool(np.array_equal(a.cumulative_regret, b.cumulative_regret)),
                  "strategy_equal": bool(np.array_equal(a.cumulative_strategy, b.cumulative_strategy))})
