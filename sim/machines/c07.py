"""C07 - more information never hurts: along any reveal history no interval widens and
every offered gap function is non-increasing, non-negative and zero at full knowledge.

Two paths: through env.step (the path every consumer uses) and through direct
reveal_value + compute.  Between reveals the disturbances a real session has: solver-style
probes (step + unstep of other actions), steps torn by a simulated KeyboardInterrupt with
reset-free recovery, memo eviction.
"""
from __future__ import annotations

import os

import numpy as np

from .. import em, games, gm, seams, simthreads
from .. import prelude
from ..core import Sim

LEVEL = "exploration"
RULE = ("Each run draws a class-matched (hidden game, computer) pair (SA closure / registered SA family x both SA "
        "computers; SAM construction / registered SAM family x sam_apx_1, _10, and _100/_1000 at n=3), n = 3..5, "
        "and a tape-drawn reveal order until everything is revealed, through env.step or reveal_value+compute, "
        "with probes, torn steps and memo evictions in between; after every reveal all intervals and all four "
        "registered gap functions are compared with their values before it. Non-trivial = compared after a "
        "reveal; distinct = distinct event-log digests.")
STATE_MEASURE = "distinct (n, computer, knowledge bitmask before, revealed coalition) lattice edges checked"
REAL_VS_STUB = {"real": ["bounds (all registered computers)", "norms", "exploitability", "run.model.GAP_FUNCTIONS",
                         "icg_gym", "game", "generators (registry families)"], "stub": [],
                "seams": ["interrupt injector", "memo eviction"]}
ASSUMPTIONS = ["exact mode: interval monotonicity compared exactly; float mode: tolerance 1e-9*max(1,max|v|)",
               "exploitability is a cancelling sum: tolerance 1e-9*scale*2^n in both modes; norms 1e-12 relative",
               "hidden game's class is re-checked by the harness's independent predicates"]
PROBES = ["reveal_overlapped_with_another_threads_step", "large_n_path", "second_episode_on_same_object", "full_knowledge_reached", "torn_step_recovered", "probe_between_reveals", "sam_computer", "sa_computer",
          "env_path", "object_path", "registry_game", "heavy_sam_computer"]
TIERS = {
    "quick": {"runs": 30000, "wall": 40, "batch": 16, "shrink_s": 40},
    "thorough": {"runs": 5000000, "wall": 900, "batch": 24, "shrink_s": 120},
}
SA_KEYS = ["factory", "factory_square", "noisy_factory", "graph_random", "graph_cycle", "factory_cheerleader",
           "noisy_factory_exp", "graph_ws_connected"]
SAM_KEYS = ["xos", "xos2", "xos12", "xs", "xs3", "oxs", "k_budget_generator", "covg_fn_generator",
            "xos_norm_additive"]


def preload() -> None:
    import incomplete_cooperative.run.model  # noqa: F401


def formula_norms(width: np.ndarray) -> dict[str, float]:
    w = np.abs(width.astype(np.float64))
    return {"l1_norm": float(np.sum(w)), "l2_norm": float(np.sqrt(np.sum(w * w))), "linf_norm": float(np.max(w))}


def gaps_of(sim: Sim, game, GAPS, scale: float, ctx: dict) -> dict[str, float]:
    out = {}
    with sim.guard("C07.gap_function_raised"):
        for name, fn in GAPS.items():
            out[name] = float(fn(game))
    width = np.array(game.get_upper_bounds()) - np.array(game.get_lower_bounds())
    want = formula_norms(width)
    for name, w in want.items():
        if name in out and abs(out[name] - w) > 1e-12 * max(1.0, abs(w)):
            sim.fail("C07.registered_norm_differs_from_its_definition", {**ctx, "norm": name, "got": out[name], "expected": w})
    return out


def compare_step(sim: Sim, n: int, old, new, g_old: dict, g_new: dict, revealed: int, exact: bool, scale: float,
                 ctx: dict) -> None:
    ko, lo, uo = old
    kn, ln, un = new
    tol = 0.0 if exact else 1e-9 * scale
    sim.checked()
    bad = np.nonzero(ln < lo - tol)[0]
    if len(bad):
        i = int(bad[0])
        sim.fail("C07.lower_bound_decreased_after_reveal", {**ctx, "revealed": revealed, "coalition": i,
                                                            "before": float(lo[i]), "after": float(ln[i])})
    bad = np.nonzero(un > uo + tol)[0]
    if len(bad):
        i = int(bad[0])
        sim.fail("C07.upper_bound_increased_after_reveal", {**ctx, "revealed": revealed, "coalition": i,
                                                            "before": float(uo[i]), "after": float(un[i])})
    for name in g_new:
        gt = (1e-9 * scale * 2 ** n) if name == "exploitability" else max(tol * 2 ** n, 1e-12 * max(1.0, abs(g_old[name])))
        if g_new[name] > g_old[name] + gt:
            sim.fail("C07.gap_increased_after_reveal", {**ctx, "gap": name, "revealed": revealed,
                                                        "before": g_old[name], "after": g_new[name]})
        if g_new[name] < -gt:
            sim.fail("C07.gap_negative", {**ctx, "gap": name, "value": g_new[name]})


def run(sim: Sim) -> None:
    from incomplete_cooperative.run.model import GAP_FUNCTIONS
    GAPS = dict(GAP_FUNCTIONS)
    n = 3 + sim.choose(3, "n")
    cls = sim.pick(["SA", "SAM"], "class")
    heavy = n == 3 and sim.flip(1, 6, "heavy")
    large = sim.choose(700 if sim.tier == "quick" else 40, "large-n") == 1 or bool(os.environ.get("VERIF_FORCE_LARGE"))
    if large:  # rare: a long reveal path at n = 7..8 (hundreds of reveals, dozens of known super-coalitions)
        n = 7 + sim.choose(2, "large-n-value")
        sim.probe("large_n_path")
    comp_name = sim.pick(games.computers_for(cls, n, heavy_ok=heavy), "computer")
    if large:
        comp_name = "superadditive_cached" if cls == "SA" or sim.flip(1, 2, "large-sa") else "sam_apx_1"
    sim.probe("sam_computer" if comp_name.startswith("sam") else "sa_computer")
    if comp_name in ("sam_apx_100", "sam_apx_1000"):
        sim.probe("heavy_sam_computer")
    if sim.flip(1, 3, "registry") or (large and sim.flip(2, 3, "large-registry")):
        key = sim.pick(SA_KEYS if cls == "SA" else [k for k in SAM_KEYS if not (large and k == "oxs")], "key")
        src = em.RegistrySource(key, n, sim.choose(2 ** 32, "seed"))
        with sim.guard("C07.generator_raised"):
            src()
        values = src.current()
        exact = False
        t = 1e-9 * max(1.0, float(np.max(np.abs(values))))
        ok = games.is_sa(values, n, t) and (cls == "SA" or games.is_mono_dec(values, n, t))
        if ok:
            sim.probe("registry_game")
        else:
            values, exact = games.draw_game(sim, n, cls)
    else:
        values, exact = games.draw_game(sim, n, cls)
    scale = max(1.0, float(np.max(np.abs(values))))
    path = sim.pick(["env", "object"], "path")
    sim.probe(path + "_path")
    ctx = {"n": n, "computer": comp_name, "class": cls, "exact": exact, "path": path}
    sim.config.update(ctx)
    prelude.warm_process(sim)
    explorable = games.explorable_ids(n)
    src = em.ListSource([values], n)
    if path == "env":
        with sim.guard("C07.operation_raised"):
            env = em.make_env(n, comp_name, src, GAPS[sim.pick(sorted(GAPS), "env-gap")], None)
        game = env.incomplete_game
        h = None
    else:
        env = None
        h = gm.GameHarness(sim, n, comp_name, values)
        with sim.guard("C07.operation_raised"):
            h.reset_minimal()
            h.compute()
        game = h.g
    other = em.OtherClientEnv(sim, n, comp_name, GAPS[sim.pick(sorted(GAPS), "other-env-gap")], cls) if n <= 5 else None
    episodes = 1 + sim.choose(3, "episodes")
    for ep in range(episodes):
        if ep > 0:  # the same long-lived object plays another hidden game
            values, exact = games.draw_game(sim, n, cls)
            scale = max(1.0, float(np.max(np.abs(values))))
            ctx = {**ctx, "exact": exact, "episode": ep}
            sim.op("new-episode", ep)
            sim.probe("second_episode_on_same_object")
            with sim.guard("C07.operation_raised"):
                if path == "env":
                    src.values_list = [np.array(values, dtype=np.float64)]
                    env.reset()
                else:
                    h.values = values
                    h.reset_minimal()
                    h.compute()
        order = sim.shuffled(list(range(len(explorable))), "reveal-order")
        if ep < episodes - 1 and sim.flip(1, 2, "partial-episode"):
            order = order[:1 + sim.choose(len(order), "episode-length")]
        _episode(sim, n, comp_name, path, env, h, game, values, exact, scale, GAPS, order, explorable, ctx,
                 full=len(order) == len(explorable), other=other)


def _episode(sim: Sim, n, comp_name, path, env, h, game, values, exact, scale, GAPS, order, explorable, ctx, full,
             other=None) -> None:
    old = games.arrays(game)
    g_old = gaps_of(sim, game, GAPS, scale, ctx)
    revealed: list[int] = []
    reported: list[float] = [float(-env.reward)] if path == "env" else []
    for a in order:
        cid = explorable[a]
        mask_before = sum(1 << explorable[x] for x in revealed)
        # disturbances between reveals
        d = sim.pick_weighted([("none", 6), ("probe", 2), ("torn", 1), ("evict", 1), ("other_use", 1), ("other_env", 1)], "disturbance")
        if d == "other_use":
            prelude.warm_process(sim, label="midrun")
        overlapped = None
        if d == "other_env" and n <= 5 and other is not None:
            if sim.flip(1, 2, "in-another-thread"):
                overlapped = other.thunk(a)  # the second client's call overlaps the reveal below (another thread)
            if overlapped is None:
                other.act(a)
        with sim.guard("C07.operation_raised"):
            if d == "evict":
                seams.clear_memos()
                sim.fault("memo_evict")
            elif d == "probe":
                others = [x for x in order if x not in revealed and x != a]
                if others:
                    b = sim.pick(others, "probe-action")
                    sim.op("probe", b)
                    if path == "env":
                        env.step(b)
                        env.unstep(b)
                    else:
                        h.reveal(explorable[b])
                        h.compute()
                        h.unreveal(explorable[b])
                        h.compute()
                    sim.probe("probe_between_reveals")
            elif d == "torn":
                others = [x for x in order if x not in revealed]
                b = sim.pick(others, "torn-action")
                k = 1 + sim.choose(300 if n <= 4 else 1500, "tear-at")
                if path == "env":
                    fired = seams.run_torn(lambda: env.step(b), k)
                else:
                    def both():
                        h.g.reveal_value(values[explorable[b]], games.coalition(explorable[b]))
                        h.g.compute_bounds()
                    fired = seams.run_torn(both, k)
                if fired:
                    sim.fault("torn_step", b, k)
                # reset-free recovery: undo the reveal if it happened, then recompute
                if game.is_value_known(games.coalition(explorable[b])):
                    game.unreveal_value(games.coalition(explorable[b]))
                game.compute_bounds()
                if path == "env":
                    env.steps_taken = len(revealed)
                    reported[:] = [float(-env.reward)]
                if fired:
                    sim.probe("torn_step_recovered")
                rec = games.arrays(game)
                g_rec = gaps_of(sim, game, GAPS, scale, ctx)
                compare_step(sim, n, old, rec, g_old, g_rec, -1, exact, scale, {**ctx, "after": "torn step + recovery"})
                old, g_old = rec, g_rec
        # the reveal itself
        sim.op("reveal", cid)
        with sim.guard("C07.operation_raised"):
            if path == "env":
                if overlapped is not None:
                    ret = simthreads.interleave(sim, [lambda: env.step(a), overlapped])[0]
                    sim.probe("reveal_overlapped_with_another_threads_step")
                else:
                    ret = env.step(a)
                # the gap the environment itself reports (what every consumer sees) obeys the same law
                rep = -float(ret[1])
                gt = 1e-9 * scale * 2 ** n
                sim.checked()
                if reported and rep > reported[-1] + gt:
                    sim.fail("C07.gap_reported_by_environment_increased_after_reveal",
                             {**ctx, "revealed": cid, "before": reported[-1], "after": rep})
                if rep < -gt:
                    sim.fail("C07.gap_reported_by_environment_negative", {**ctx, "revealed": cid, "value": rep})
                reported.append(rep)
            else:
                h.reveal(cid)
                if overlapped is not None:
                    simthreads.interleave(sim, [h.g.compute_bounds, overlapped])
                    h.dirty = False
                    sim.probe("reveal_overlapped_with_another_threads_step")
                else:
                    h.compute()
        revealed.append(a)
        new = games.arrays(game)
        g_new = gaps_of(sim, game, GAPS, scale, ctx)
        compare_step(sim, n, old, new, g_old, g_new, cid, exact, scale, ctx)
        sim.state(n, comp_name, mask_before, cid)
        old, g_old = new, g_new
    if not full:
        return
    # everything revealed: every gap is zero
    sim.probe("full_knowledge_reached")
    sim.checked()
    for name, gv in g_old.items():
        lim = 1e-9 * scale * 2 ** n if name == "exploitability" else 0.0
        if abs(gv) > lim:
            sim.fail("C07.gap_not_zero_at_full_knowledge", {**ctx, "gap": name, "value": gv})
