"""C13 - built-in solvers pick valid actions by their rule and leave the environment untouched;
the expected-greedy search extends by a minimiser of the mean gap, for any worker pool.

(i)  EM: states reached by simulated client histories; every registered solver is asked for
     its move; the rewards of all valid actions are recomputed independently on fresh objects.
(ii) PM: get_greedy_rewards under SimPool for several (processes, image, schedule) configurations.
"""
from __future__ import annotations

import itertools
from random import Random

import numpy as np

from .. import em, games, seams, simpool
from .. import prelude
from ..core import Sim

LEVEL = "exploration"
RULE = ("(i) Each run drives one environment (n = 3..5, asymmetric hidden games from harness constructions and "
        "registered families, all computers) through a tape-drawn client history (step / unstep / reset / torn "
        "step + reset) and at 3..10 of the reached states asks every registered solver for its move, comparing it "
        "with the rule evaluated on independently recomputed rewards and the environment snapshot before/after. "
        "(ii) Each run calls get_greedy_rewards (n = 3..4, 1..4 sampled games, step limit, plain / randomised "
        "tie-break) under 2..3 tape-drawn pool configurations. Non-trivial = a solver decision or a greedy curve "
        "was checked after a state change; distinct = distinct event-log digests.")
STATE_MEASURE = "distinct (n, computer, revealed set) states at which every solver's choice was checked"
REAL_VS_STUB = {"real": ["solvers.greedy / largest_coalition / random", "run.greedy.get_greedy_rewards",
                         "gameplay.get_stacked_exploitabilities_of_action_sequences", "icg_gym", "bounds"],
                "stub": ["multiprocessing.Pool -> SimPool in part (ii)"],
                "seams": ["interrupt injector", "chunk->worker scheduler", "process images",
                          "line-granular thread interleaver (sim/simthreads.py): two solver objects asked about two different "
                          "environments in two caller threads"]}
ASSUMPTIONS = ["rewards used by the oracle are recomputed on fresh objects (bit-identical to the environment's by C08)",
               "randomised expected-greedy may pick any coalition within its documented 1e-6 of the minimum",
               "expected-greedy is called with a step limit not exceeding the number of explorable coalitions"]
PROBES = ["two_solvers_on_two_environments_overlapped_in_threads", "second_search_on_same_environment", "solver_reused_on_second_environment", "initial_knowledge_beyond_minimal", "state_with_ties", "state_best_differs_from_worst", "greedy_checked", "greedy_worst_checked",
          "largest_checked", "random_checked", "expected_greedy", "expected_greedy_randomised",
          "state_after_unstep", "several_sampled_games"]
TIERS = {
    "quick": {"runs": 4000, "wall": 40, "batch": 4, "shrink_s": 40},
    "thorough": {"runs": 800000, "wall": 1200, "batch": 8, "shrink_s": 150},
}
KEYS = {"SA": ["noisy_factory", "noisy_factory_square", "graph_random", "factory", "graph_ws_connected", "graph"],
        "SAM": ["xos", "xs", "oxs", "covg_fn_generator", "xos12"]}


def preload() -> None:
    import incomplete_cooperative.run.greedy  # noqa: F401
    import incomplete_cooperative.run.model  # noqa: F401
    import incomplete_cooperative.solvers  # noqa: F401
    simpool.record_import_scalars()


def run(sim: Sim) -> None:
    if sim.choose(3, "part") == 2:
        run_expected_greedy(sim)
    else:
        run_state_rule(sim)


# --------------------------------------------------------------------------- (i)
def run_state_rule(sim: Sim) -> None:
    from incomplete_cooperative.run.model import GAP_FUNCTIONS, ModelInstance
    from incomplete_cooperative.solvers import SOLVERS
    n = 3 + sim.choose(3, "n")
    cls = sim.pick(["SA", "SAM"], "class")
    comp_name = sim.pick(games.computers_for(cls, n), "computer")
    gap_name = sim.pick(sorted(GAP_FUNCTIONS), "gap")
    gap = GAP_FUNCTIONS[gap_name]
    budget = None if not sim.flip(1, 4, "budget?") else sim.choose(8, "budget")
    prelude.warm_process(sim)
    with sim.guard("C13.construction_raised"):
        inst = ModelInstance(number_of_players=n, seed=sim.choose(1000, "solver-seed"), unique_name="sim")
        solvers = {name: SOLVERS[name](inst) for name in sorted(SOLVERS)}
    all_expl = games.explorable_ids(n)
    n_extra = sim.choose(min(5, len(all_expl) - 1), "initially-known-extras") if sim.flip(1, 3, "extras?") else 0
    n_envs = 1 + sim.choose(2, "environments-served-by-the-same-solvers")
    ctx = {"n": n, "class": cls, "computer": comp_name, "gap": gap_name, "part": "state_rule"}
    sim.config.update(ctx)
    for e_idx in range(n_envs):
        # one solver object serves several environments (same n, equally many initially known coalitions)
        extras = sorted(sim.shuffled(all_expl, "which-extras")[:n_extra])
        if e_idx:
            sim.probe("solver_reused_on_second_environment")
        _state_session(sim, solvers, n, cls, comp_name, gap, budget, extras, {**ctx, "environment": e_idx})


def _state_session(sim: Sim, solvers, n, cls, comp_name, gap, budget, extras, ctx) -> None:
    with sim.guard("C13.construction_raised"):
        if sim.flip(1, 3, "registry"):
            source = em.RegistrySource(sim.pick(KEYS[cls], "key"), n, sim.choose(2 ** 32, "seed"))
        else:
            source = em.ListSource([games.draw_game(sim, n, cls)[0] for _ in range(1 + sim.choose(3, "n-games"))], n)
        env = em.make_env(n, comp_name, source, gap, budget, initial_extra=extras)
        if sim.flip(1, 2, "after-reset-protocol"):
            for solver in solvers.values():
                solver.after_reset(env)
    explorable = [e for e in games.explorable_ids(n) if e not in extras]
    if extras:
        sim.probe("initial_knowledge_beyond_minimal")
    ctx["initially_known_extras"] = extras
    revealed: list[int] = []
    hidden = source.current()
    checks_left = 3 + sim.choose(8 if n <= 4 else 3, "checks")
    last = ""
    for _ in range(6 + sim.choose(30, "calls")):
        valid = [a for a in range(len(explorable)) if a not in revealed]
        kinds = [("check", 3)]
        if valid:
            kinds.append(("step", 5))
        if revealed:
            kinds.append(("unstep", 2))
        kinds.append(("reset", 1))
        if valid:
            kinds.append(("torn", 1))
        kind = sim.pick_weighted(kinds, "client-call")
        with sim.guard("C13.environment_raised"):
            if kind == "torn":
                a = sim.pick(valid, "torn-action")
                if seams.run_torn(lambda: env.step(a), 1 + sim.choose(300 if n <= 4 else 1500, "tear-at")):
                    sim.fault("torn_step", a)
                sim.op("reset")
                env.reset()
                revealed = []
                hidden = source.current()
            elif kind == "step":
                a = sim.pick(valid, "action")
                sim.op("step", a)
                env.step(a)
                revealed.append(a)
            elif kind == "unstep":
                a = revealed.pop(sim.choose(len(revealed), "which"))
                sim.op("unstep", a)
                env.unstep(a)
            elif kind == "reset":
                sim.op("reset")
                env.reset()
                revealed = []
                hidden = source.current()
        if kind == "check" and valid and checks_left > 0:
            checks_left -= 1
            if last == "unstep":
                sim.probe("state_after_unstep")
            check_state(sim, env, solvers, n, comp_name, gap, hidden, revealed, valid, explorable, ctx, extras)
        last = kind
    valid = [a for a in range(len(explorable)) if a not in revealed]
    if valid:
        check_state(sim, env, solvers, n, comp_name, gap, hidden, revealed, valid, explorable, ctx, extras)


def check_state(sim: Sim, env, solvers, n, comp_name, gap, hidden, revealed, valid, explorable, ctx, extras=()) -> None:
    comp = games.computer(comp_name)
    K = games.minimal_ids(n) + list(extras) + [explorable[a] for a in revealed]
    rewards = {}
    for a in valid:
        f = games.fresh(n, comp, K + [explorable[a]], hidden)
        rewards[a] = -gap(f)
    vals = [rewards[a] for a in valid]
    if len(set(np.float64(v).tobytes() for v in vals)) < len(vals):
        sim.probe("state_with_ties")
    if max(vals) != min(vals):
        sim.probe("state_best_differs_from_worst")
    best = next(a for a in valid if rewards[a] == max(vals))
    worst = next(a for a in valid if rewards[a] == min(vals))
    maxsize = max(games.popcount(explorable[a]) for a in valid)
    largest = next(a for a in valid if games.popcount(explorable[a]) == maxsize)
    c = {**ctx, "revealed": sorted(revealed)}
    sim.state(n, comp_name, tuple(sorted(revealed)))
    if n <= 4 and not getattr(sim, "_c13_overlapped", False) and sim.flip(1, 5, "threads"):
        sim._c13_overlapped = True  # line tracing makes a greedy probe slow: at most one overlapped pair per run
        _overlapped_pair(sim, env, solvers, valid, rewards, explorable, c, n, comp_name, gap)
    for name, solver in solvers.items():
        before = em.env_snapshot(env)
        sim.op("next_step", name, mutating=False)
        with sim.guard("C13.solver_raised"):
            act = solver.next_step(env)
        after = em.env_snapshot(env)
        sim.checked()
        if before != after:
            sim.fail("C13.solver_changed_the_environment", {**c, "solver": name, "fields": em.diff_snapshot(before, after)})
        _judge(sim, name, act, valid, rewards, explorable, c)


def _expected(valid, rewards, explorable):
    vals = [rewards[a] for a in valid]
    best = next(a for a in valid if rewards[a] == max(vals))
    worst = next(a for a in valid if rewards[a] == min(vals))
    maxsize = max(games.popcount(explorable[a]) for a in valid)
    largest = next(a for a in valid if games.popcount(explorable[a]) == maxsize)
    return best, worst, largest


def _judge(sim: Sim, name, act, valid, rewards, explorable, c) -> None:
    best, worst, largest = _expected(valid, rewards, explorable)
    if not isinstance(act, (int, np.integer)) or int(act) not in valid:
        sim.fail("C13.solver_returned_an_invalid_action", {**c, "solver": name, "action": repr(act)})
    act = int(act)
    table = {a: float(rewards[a]) for a in valid}
    if name == "greedy":
        sim.probe("greedy_checked")
        if act != best:
            sim.fail("C13.greedy_did_not_pick_lowest_index_of_maximal_reward", {**c, "picked": act, "expected": best, "rewards": table})
    elif name == "greedy_worst":
        sim.probe("greedy_worst_checked")
        if act != worst:
            sim.fail("C13.worst_greedy_did_not_pick_lowest_index_of_minimal_reward", {**c, "picked": act, "expected": worst, "rewards": table})
    elif name == "largest":
        sim.probe("largest_checked")
        if act != largest:
            sim.fail("C13.largest_did_not_pick_lowest_index_among_largest_unknown", {**c, "picked": act, "expected": largest})
    else:
        sim.probe("random_checked")


def _overlapped_pair(sim: Sim, env, solvers, valid, rewards, explorable, c, n, comp_name, gap) -> None:
    """A second caller thread asks its own solver about its own environment while a solver works on `env`;
    neither shares an object with the other, so each must answer and leave its environment as if it ran alone."""
    from incomplete_cooperative.run.model import ModelInstance
    from incomplete_cooperative.solvers import SOLVERS

    from .. import simthreads
    comp = games.computer(comp_name)
    cls = c["class"]
    with sim.guard("C13.construction_raised"):
        hidden2, _ = games.draw_game(sim, n, cls)
        env2 = em.make_env(n, comp_name, em.ListSource([hidden2], n), gap, None)
        inst2 = ModelInstance(number_of_players=n, seed=sim.choose(1000, "sibling-solver-seed"), unique_name="sim2")
        expl2 = games.explorable_ids(n)
        revealed2 = sim.shuffled(list(range(len(expl2))), "sibling-steps")[:sim.choose(max(1, len(expl2) - 1), "sibling-depth")]
    with sim.guard("C13.environment_raised"):
        for a in revealed2:
            env2.step(a)
    valid2 = [a for a in range(len(expl2)) if a not in revealed2]
    K2 = games.minimal_ids(n) + [expl2[a] for a in revealed2]
    rewards2 = {a: -gap(games.fresh(n, comp, K2 + [expl2[a]], hidden2)) for a in valid2}
    name1 = sim.pick(sorted(solvers), "thread-solver")
    name2 = sim.pick(sorted(SOLVERS), "sibling-solver")
    with sim.guard("C13.construction_raised"):
        solver2 = SOLVERS[name2](inst2)
    b1, b2 = em.env_snapshot(env), em.env_snapshot(env2)
    sim.op("next_step-in-two-threads", name1, name2, mutating=False)
    with sim.guard("C13.solver_raised"):
        act1, act2 = simthreads.interleave(sim, [lambda: solvers[name1].next_step(env), lambda: solver2.next_step(env2)])
    sim.probe("two_solvers_on_two_environments_overlapped_in_threads")
    sim.checked(2)
    for which, before, e in (("first", b1, env), ("sibling", b2, env2)):
        after = em.env_snapshot(e)
        if before != after:
            sim.fail("C13.solver_changed_the_environment",
                     {**c, "solver": name1 if which == "first" else name2, "environment": which,
                      "while": "another thread's solver worked on another environment", "fields": em.diff_snapshot(before, after)})
    _judge(sim, name1, act1, valid, rewards, explorable, {**c, "while": "overlapped with another thread"})
    _judge(sim, name2, act2, valid2, rewards2, expl2, {**c, "environment": "sibling", "revealed": sorted(revealed2), "while": "overlapped with another thread"})


# -------------------------------------------------------------------------- (ii)
def run_expected_greedy(sim: Sim) -> None:
    from incomplete_cooperative.run.greedy import get_greedy_rewards
    from incomplete_cooperative.run.model import GAP_FUNCTIONS
    sim.probe("expected_greedy")
    n = 3 if not sim.flip(1, 3, "n4") else 4
    cls = sim.pick(["SA", "SAM"], "class")
    comp_name = sim.pick(games.computers_for(cls, n), "computer")
    gap_name = sim.pick(sorted(GAP_FUNCTIONS), "gap")
    gap = GAP_FUNCTIONS[gap_name]
    all_expl = games.explorable_ids(n)
    extras = sim.subset(all_expl, "initially-known-extras", 1, 6) if sim.flip(1, 3, "extras?") else []
    if len(extras) >= len(all_expl) - 1:
        extras = []
    if extras:
        sim.probe("initial_knowledge_beyond_minimal")
    explorable = [e for e in all_expl if e not in extras]
    reps = 1 + sim.choose(4, "repetitions")
    if reps > 1:
        sim.probe("several_sampled_games")
    max_steps = 1 + sim.choose(min(len(explorable), 3), "max-steps")
    randomised = sim.flip(1, 3, "randomised")
    if randomised:
        sim.probe("expected_greedy_randomised")
    rseed = sim.choose(1000, "random-seed")
    values = [games.draw_game(sim, n, cls)[0] for _ in range(reps + sim.choose(2, "extra-games"))]
    ctx = {"n": n, "class": cls, "computer": comp_name, "gap": gap_name, "part": "expected_greedy",
           "repetitions": reps, "max_steps": max_steps, "randomised": randomised}
    sim.config.update(ctx)
    comp = games.computer(comp_name)
    K0 = games.minimal_ids(n) + list(extras)
    first = None
    prelude.warm_process(sim)
    cache: dict = {}
    configs = [(1 + sim.choose(16, "processes"), sim.pick(["fork", "fresh"], "image")) for _ in range(2 + sim.choose(2, "n-configs"))]
    shared_env = None
    reuse_env = sim.flip(1, 2, "reuse-one-environment")
    for p, image in configs:
        sim.op("expected_greedy", p, image)
        sim.mutations += 1
        c = {**ctx, "processes": p, "image_model": image, "environment_reused": reuse_env}
        with sim.guard("C13.expected_greedy_raised"):
            if reuse_env and shared_env is not None:
                env, src = shared_env  # a second search on the same environment object
                src.drawn = src.drawn - (src.drawn % len(values)) + len(values) + 2  # same sampled games again
                sim.probe("second_search_on_same_environment")
            else:
                src = em.ListSource(values, n)
                env = em.make_env(n, comp_name, src, gap, None, initial_extra=extras)
                shared_env = (env, src)
            layout_before = ([c_.id for c_ in env.explorable_coalitions], np.array(env.action_masks()).tobytes(),
                             games.snapshot(env.incomplete_game))
            drawn_before = src.drawn
            with simpool.installed(sim, image):
                curve, chosen = get_greedy_rewards(env, max_steps, reps, gap, processes=p,
                                                   random=Random(rseed) if randomised else None)
        sampled = [values[(drawn_before + i) % len(values)] for i in range(reps)]
        curve = np.array(curve)
        sim.checked()
        layout_after = ([c_.id for c_ in env.explorable_coalitions], np.array(env.action_masks()).tobytes(),
                        games.snapshot(env.incomplete_game))
        if layout_after[0] != layout_before[0] or layout_after[1] != layout_before[1]:
            sim.fail("C13.expected_greedy_changed_the_environment",
                     {**c, "explorable_before": layout_before[0], "explorable_after": layout_after[0]})
        if curve.shape != (max_steps + 1, reps) or len(chosen) != max_steps:
            sim.fail("C13.expected_greedy_shape", {**c, "shape": list(curve.shape), "chosen": list(chosen)})
        if len(set(chosen)) != len(chosen) or any(x not in explorable for x in chosen):
            sim.fail("C13.expected_greedy_repeats_or_invalid_coalition", {**c, "chosen": list(chosen)})

        def column(s: tuple) -> np.ndarray:
            col = []
            for hv in sampled:
                key = (hv.tobytes(), tuple(sorted(s)))
                if key not in cache:
                    cache[key] = gap(games.fresh(n, comp, K0 + list(s), hv))
                col.append(cache[key])
            return np.array(col, dtype=np.float64)

        scale = max(1.0, max(float(np.max(np.abs(v))) for v in sampled))
        eps = 1e-6 if randomised else 1e-12 * scale
        means = []
        for t in range(max_steps + 1):
            prefix = tuple(chosen[:t])
            col = column(prefix)
            if curve[t].tobytes() != col.tobytes():
                sim.fail("C13.expected_greedy_curve_is_not_the_gap_of_its_own_sequence",
                         {**c, "step": t, "sequence": list(prefix), "row": curve[t].tolist(), "expected": col.tolist()})
            m = float(np.mean(col))
            means.append(m)
            if t >= 1:
                rest = [e for e in explorable if e not in chosen[:t - 1]]
                alt = {e: float(np.mean(column(tuple(chosen[:t - 1]) + (e,)))) for e in rest}
                mn = min(alt.values())
                if m > mn + eps:
                    sim.fail("C13.expected_greedy_extension_does_not_minimise_the_mean_gap",
                             {**c, "step": t, "chosen": chosen[t - 1], "chosen_mean": m, "best": min(alt, key=alt.get), "best_mean": mn})
        tol = 1e-9 * scale * 2 ** n
        for a, b in zip(means, means[1:]):
            if b > a + tol:
                sim.fail("C13.expected_greedy_curve_increases", {**c, "curve": means})
        for t in range(max_steps + 1):
            opt = min(float(np.mean(column(s))) for s in itertools.combinations(explorable, t))
            if means[t] < opt - tol:
                sim.fail("C13.expected_greedy_below_exhaustive_optimum", {**c, "step": t, "greedy": means[t], "optimum": opt})
            if t <= 1 and means[t] > opt + max(tol, eps):
                sim.fail("C13.expected_greedy_not_optimal_for_zero_or_one_reveals", {**c, "step": t, "greedy": means[t], "optimum": opt})
        res = (curve.tobytes(), list(chosen))
        if first is None:
            first = res
        elif first != res:
            sim.fail("C13.expected_greedy_depends_on_worker_processes_or_schedule", c)
