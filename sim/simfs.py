"""SimFS - the storage seam.

A real scratch directory (under /dev/shm) per run.  `builtins.open` / `io.open`
and the mutating `os.*` calls are rebound while the seam is installed: for a path
under the root the raw layer is a `SimRaw` (over a real `io.FileIO`) wrapped in
Python's *own* BufferedWriter/Reader and TextIOWrapper, so buffering and encoding
are the real code and only raw I/O is the seam.  Every raw mutating call is an
*I/O event*; a fault plan decides for one chosen event whether the process dies
before / after / in the middle of it, is interrupted, or gets an OSError.
"""
from __future__ import annotations

import builtins
import errno
import io
import os
import shutil
import tempfile
from typing import Any

from .core import HarnessError, Sim, SimInterrupt, SimKill

_OPEN = builtins.open
_IO_OPEN = io.open
_REAL = {name: getattr(os, name) for name in (
    "open", "write", "close", "fsync", "fdatasync", "replace", "rename", "unlink", "remove", "truncate",
    "ftruncate", "link", "symlink", "mkdir", "rmdir", "pwrite", "writev")}


class Plan:
    """What to inject, and at which event of the current operation."""

    def __init__(self, kind: str = "none", at: int = -1, arg: int = 0, err: int = errno.ENOSPC) -> None:
        self.kind, self.at, self.arg, self.err = kind, at, arg, err

    def __repr__(self) -> str:
        return f"Plan({self.kind}@{self.at},{self.arg})"


ACTIVE: list["SimFS"] = []


def cleanup_all() -> None:
    """Safety net (called at the end of every run): no scratch directory outlives its run."""
    for fs in list(ACTIVE):
        fs.cleanup()


def remove_stale(max_age_s: float = 7200.0) -> int:
    """Remove scratch directories left behind by killed check processes."""
    import time
    n = 0
    for base in ("/dev/shm", tempfile.gettempdir()):
        try:
            names = os.listdir(base)
        except OSError:
            continue
        for name in names:
            p = os.path.join(base, name)
            if name.startswith("icg-simfs-") and os.path.isdir(p):
                try:
                    if time.time() - os.path.getmtime(p) > max_age_s:
                        shutil.rmtree(p, ignore_errors=True)
                        n += 1
                except OSError:
                    pass
    return n


class SimFS:
    def __init__(self, sim: Sim, buffer_size: int = -1, write_through: bool = False) -> None:
        self.sim = sim
        ACTIVE.append(self)
        base = "/dev/shm" if os.path.isdir("/dev/shm") and os.access("/dev/shm", os.W_OK) else tempfile.gettempdir()
        self.root = os.path.realpath(tempfile.mkdtemp(prefix="icg-simfs-", dir=base))
        self.buffer_size = buffer_size
        self.write_through = write_through
        self.events: list[tuple] = []
        self.plan = Plan()
        self.dead = False
        self.failing = False
        self.fired = False
        self.installed = False
        self.fds: dict[int, str] = {}
        self.log_to_sim = True
        self._rel_cache: dict[str, str] = {}
        self.short_every = 0  # knob: every m-th raw write of size > 1 is a short write
        self._writes = 0

    # ------------------------------------------------------------------ control
    def begin_op(self, plan: Plan | None = None) -> None:
        self.events = []
        self._writes = 0
        self.plan = plan or Plan()
        self.dead = False
        self.failing = False
        self.fired = False

    def heal(self) -> None:
        self.plan = Plan()
        self.dead = False
        self.failing = False

    def cleanup(self) -> None:
        self.uninstall()
        shutil.rmtree(self.root, ignore_errors=True)
        if self in ACTIVE:
            ACTIVE.remove(self)

    def under(self, path: Any) -> str | None:
        if isinstance(path, int):
            return self.fds.get(path)
        try:
            p = os.path.abspath(os.fspath(path))
        except TypeError:
            return None
        if isinstance(p, bytes):
            p = os.fsdecode(p)
        if p == self.root or p.startswith(self.root + os.sep):
            return p
        rp = os.path.realpath(p)
        if rp == self.root or rp.startswith(self.root + os.sep):
            return rp
        return None

    def rel(self, p: str) -> str:
        r = self._rel_cache.get(p)
        if r is None:
            r = self._rel_cache[p] = os.path.relpath(p, self.root)
        return r

    # ------------------------------------------------------------------- events
    def event(self, kind: str, path: str, size: int = 0) -> tuple[str, int]:
        """Register an I/O event that is about to happen.

        Returns ("ok", 0) -> perform it; ("skip", 0) -> process is dead, silently do nothing;
        ("partial", j) -> perform only the first j bytes then die; ("short", j) -> accept j bytes;
        ("after", 0) -> perform it, then call `post()`.
        Raises SimKill / SimInterrupt / OSError for the other fault kinds.
        """
        if self.dead:
            return "skip", 0
        idx = len(self.events)
        self.events.append((kind, self.rel(path), size))
        if self.log_to_sim:
            self.sim.event("io", idx, kind, self.rel(path), size)
        if self.failing:
            raise OSError(self.plan.err, os.strerror(self.plan.err), path)
        pl = self.plan
        if pl.kind == "none" or idx != pl.at:
            if kind == "write" and size > 1 and self.short_every:
                self._writes += 1
                if self._writes % self.short_every == 0:
                    return "short", max(1, size // 2)
            return "ok", 0
        self.fired = True
        if pl.kind == "kill_before":
            self.dead = True
            raise SimKill()
        if pl.kind == "interrupt":
            raise SimInterrupt()
        if pl.kind == "ioerror":
            self.failing = True
            raise OSError(pl.err, os.strerror(pl.err), path)
        if pl.kind == "kill_after":
            return "after", 0
        if pl.kind == "kill_partial":
            if kind == "write" and size > 0:
                return "partial", min(pl.arg, size - 1) if size > 1 else 0
            return "after", 0
        if pl.kind == "short":
            if kind == "write" and size > 1:
                return "short", max(1, min(pl.arg, size - 1))
            return "ok", 0
        raise HarnessError(f"unknown plan {pl}")

    def post(self) -> None:
        """The event took effect and the process dies right after it."""
        self.dead = True
        raise SimKill()

    # --------------------------------------------------------------------- open
    def open(self, file, mode="r", buffering=-1, encoding=None, errors=None, newline=None,
             closefd=True, opener=None):
        p = self.under(file)
        if p is None or isinstance(file, int) or opener is not None:
            return _IO_OPEN(file, mode, buffering, encoding, errors, newline, closefd, opener)
        modes = set(mode)
        if modes - set("axrwb+tU") or len(mode) > len(modes):
            raise ValueError(f"invalid mode: {mode!r}")
        creating, reading, writing = "x" in modes, "r" in modes, "w" in modes
        appending, updating, text, binary = "a" in modes, "+" in modes, "t" in modes, "b" in modes
        if text and binary:
            raise ValueError("can't have text and binary mode at once")
        if creating + reading + writing + appending != 1:
            raise ValueError("must have exactly one of create/read/write/append mode")
        if binary and encoding is not None:
            raise ValueError("binary mode doesn't take an encoding argument")
        rawmode = ("x" if creating else "") + ("r" if reading else "") + ("w" if writing else "") + \
                  ("a" if appending else "") + ("+" if updating else "")
        raw = SimRaw(self, p, rawmode)
        result: Any = raw
        try:
            line_buffering = False
            if buffering == 1 and not binary:
                buffering = -1
                line_buffering = True
            if buffering < 0:
                buffering = self.buffer_size if self.buffer_size > 0 else io.DEFAULT_BUFFER_SIZE
            if buffering == 0:
                if binary:
                    return result
                raise ValueError("can't have unbuffered text I/O")
            if updating:
                buffer: Any = io.BufferedRandom(raw, buffering)
            elif creating or writing or appending:
                buffer = io.BufferedWriter(raw, buffering)
            else:
                buffer = io.BufferedReader(raw, buffering)
            result = buffer
            if binary:
                return result
            tw = io.TextIOWrapper(buffer, encoding, errors, newline, line_buffering,
                                  write_through=self.write_through)
            result = tw
            tw.mode = mode
            return result
        except BaseException:
            try:
                result.close()
            except BaseException:
                pass
            raise

    # --------------------------------------------------------------- os wrappers
    def _wrap_path_op(self, name: str, kind: str, npaths: int = 1):
        real = _REAL[name]

        def wrapper(*args, **kwargs):
            paths = [self.under(a) for a in args[:npaths]]
            if "dir_fd" in kwargs or "src_dir_fd" in kwargs or "dst_dir_fd" in kwargs or not any(paths):
                return real(*args, **kwargs)
            target = paths[-1] or paths[0]
            act, _ = self.event(kind, target)
            if act == "skip":
                return None
            r = real(*args, **kwargs)
            if act == "after":
                self.post()
            return r
        wrapper.__name__ = name
        return wrapper

    def os_open(self, path, flags, mode=0o777, *, dir_fd=None):
        p = self.under(path)
        if p is None or dir_fd is not None:
            return _REAL["open"](path, flags, mode, dir_fd=dir_fd)
        acc = flags & os.O_ACCMODE
        if acc == os.O_RDONLY and not flags & (os.O_CREAT | os.O_TRUNC):
            return _REAL["open"](path, flags, mode)
        exists = os.path.exists(p)
        kind = "open-trunc" if (flags & os.O_TRUNC and exists) else ("open-create" if not exists else "open-rw")
        act, _ = self.event(kind, p)
        if act == "skip":
            fd = _REAL["open"](os.devnull, os.O_WRONLY)
            return fd
        fd = _REAL["open"](path, flags, mode)
        self.fds[fd] = p
        if act == "after":
            self.post()
        return fd

    def os_write(self, fd, data):
        p = self.fds.get(fd)
        if p is None:
            return _REAL["write"](fd, data)
        n = len(data)
        act, j = self.event("write", p, n)
        if act == "skip":
            return n
        if act == "partial":
            _REAL["write"](fd, bytes(data)[:j])
            self.post()
        if act == "short":
            return _REAL["write"](fd, bytes(data)[:j])
        r = _REAL["write"](fd, data)
        if act == "after":
            self.post()
        return r

    def os_close(self, fd):
        p = self.fds.pop(fd, None)
        if p is None:
            return _REAL["close"](fd)
        try:
            act, _ = self.event("close", p)
        except BaseException:
            _REAL["close"](fd)
            raise
        r = _REAL["close"](fd)
        if act == "after":
            self.post()
        return r

    def _wrap_fd_op(self, name: str, kind: str):
        real = _REAL[name]

        def wrapper(fd, *args, **kwargs):
            p = self.fds.get(fd) if isinstance(fd, int) else self.under(fd)
            if p is None:
                return real(fd, *args, **kwargs)
            act, _ = self.event(kind, p)
            if act == "skip":
                return None
            r = real(fd, *args, **kwargs)
            if act == "after":
                self.post()
            return r
        wrapper.__name__ = name
        return wrapper

    def install(self) -> None:
        if self.installed:
            return
        builtins.open = self.open
        io.open = self.open
        os.open = self.os_open
        os.write = self.os_write
        os.close = self.os_close
        os.fsync = self._wrap_fd_op("fsync", "fsync")
        os.fdatasync = self._wrap_fd_op("fdatasync", "fsync")
        os.ftruncate = self._wrap_fd_op("ftruncate", "truncate")
        os.truncate = self._wrap_fd_op("truncate", "truncate")
        os.replace = self._wrap_path_op("replace", "replace", 2)
        os.rename = self._wrap_path_op("rename", "rename", 2)
        os.link = self._wrap_path_op("link", "link", 2)
        os.symlink = self._wrap_path_op("symlink", "symlink", 2)
        os.unlink = self._wrap_path_op("unlink", "unlink")
        os.remove = self._wrap_path_op("remove", "unlink")
        os.mkdir = self._wrap_path_op("mkdir", "mkdir")
        os.rmdir = self._wrap_path_op("rmdir", "rmdir")
        self.installed = True

    def uninstall(self) -> None:
        if not self.installed:
            return
        builtins.open = _OPEN
        io.open = _IO_OPEN
        for name in ("open", "write", "close", "fsync", "fdatasync", "replace", "rename", "unlink", "remove",
                     "truncate", "ftruncate", "link", "symlink", "mkdir", "rmdir"):
            setattr(os, name, _REAL[name])
        for fd in list(self.fds):
            try:
                _REAL["close"](fd)
            except OSError:
                pass
        self.fds.clear()
        self.installed = False

    # ------------------------------------------------------------ real-side tools
    def snapshot(self) -> dict[str, bytes | None]:
        """Content of the whole tree (None = directory), read with the real functions."""
        out: dict[str, bytes | None] = {}
        for d, dirs, files in os.walk(self.root):
            for x in dirs:
                out[os.path.relpath(os.path.join(d, x), self.root)] = None
            for x in files:
                with _OPEN(os.path.join(d, x), "rb") as f:
                    out[os.path.relpath(os.path.join(d, x), self.root)] = f.read()
        return out

    def restore(self, snap: dict[str, bytes | None]) -> None:
        for name in os.listdir(self.root):
            p = os.path.join(self.root, name)
            if os.path.isdir(p) and not os.path.islink(p):
                shutil.rmtree(p)
            else:
                _REAL["unlink"](p)
        for rel in sorted(snap, key=lambda r: (r.count(os.sep), r)):
            p = os.path.join(self.root, rel)
            if snap[rel] is None:
                os.makedirs(p, exist_ok=True)
        for rel, data in snap.items():
            if data is not None:
                p = os.path.join(self.root, rel)
                os.makedirs(os.path.dirname(p), exist_ok=True)
                with _OPEN(p, "wb") as f:
                    f.write(data)

    def read_real(self, rel: str) -> bytes | None:
        p = os.path.join(self.root, rel)
        if not os.path.exists(p):
            return None
        with _OPEN(p, "rb") as f:
            return f.read()


class SimRaw(io.RawIOBase):
    """Raw file whose every mutating call is an I/O event of the simulator."""

    def __init__(self, fs: SimFS, path: str, mode: str) -> None:
        super().__init__()
        self._fs = fs
        self._path = path
        self._mode = mode
        self._writable = any(c in mode for c in "wax+")
        self._f: io.FileIO | None = None
        if self._writable:
            exists = os.path.exists(path)
            if "w" in mode and exists:
                kind = "open-trunc"
            elif not exists:
                kind = "open-create"
            else:
                kind = "open-append" if "a" in mode else "open-rw"
            act, _ = fs.event(kind, path)
            if act == "skip":
                self._f = io.FileIO(os.devnull, "w")
                return
            self._f = io.FileIO(path, mode)
            if act == "after":
                try:
                    fs.post()
                except BaseException:
                    self._f.close()
                    raise
        else:
            self._f = io.FileIO(path, mode)

    @property
    def name(self) -> str:
        return self._path

    @property
    def mode(self) -> str:
        return self._mode

    def fileno(self) -> int:
        # The real descriptor is handed out (os.fsync(f.fileno()), mmap, fstat need it) and registered with the
        # seam, so that os.fsync / os.write / os.ftruncate on it are I/O events like any other.  A bulk writer
        # that goes to the descriptor behind Python's back (numpy's tofile) is real but not fault-injected.
        if self._f is None:
            raise io.UnsupportedOperation("closed")
        fd = self._f.fileno()
        if self._writable:
            self._fs.fds[fd] = self._path
            self._registered_fd = fd
        return fd

    def isatty(self) -> bool:
        return False

    def readable(self) -> bool:
        return self._f is not None and self._f.readable()

    def writable(self) -> bool:
        return self._f is not None and self._f.writable()

    def seekable(self) -> bool:
        return True

    def readinto(self, b) -> int | None:
        return self._f.readinto(b)

    def seek(self, pos, whence=0) -> int:
        return self._f.seek(pos, whence)

    def tell(self) -> int:
        return self._f.tell()

    def truncate(self, size=None) -> int:
        act, _ = self._fs.event("truncate", self._path)
        if act == "skip":
            return size if size is not None else 0
        r = self._f.truncate(size)
        if act == "after":
            self._fs.post()
        return r

    def write(self, b) -> int:
        data = bytes(b)
        n = len(data)
        act, j = self._fs.event("write", self._path, n)
        if act == "skip":
            return n
        if act == "partial":
            self._f.write(data[:j])
            self._fs.post()
        if act == "short":
            return self._f.write(data[:j])
        r = self._f.write(data)
        if act == "after":
            self._fs.post()
        return r

    def flush(self) -> None:
        if self._f is not None and not self._f.closed:
            self._f.flush()

    def close(self) -> None:
        if self.closed:
            return
        try:
            if self._writable and self._f is not None and not self._f.closed:
                act, _ = self._fs.event("close", self._path)
                if act == "after":
                    self._f.close()
                    super().close()
                    self._fs.post()
        finally:
            fd = getattr(self, "_registered_fd", None)
            if fd is not None:
                self._fs.fds.pop(fd, None)
            if self._f is not None:
                self._f.close()
            super().close()
